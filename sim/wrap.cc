// Link-time seams (no /repo hook needed): the library .so's are linked with -Wl,--wrap=<sym>, so every
// allocator / lock call made *from library code* lands here; the harness's own calls do not.
//  * allocator  -> exact ownership accounting (never failure injection, see DESIGN §10)
//  * rwlock/mutex -> the simulator's lock when a scheduled (threaded) run is active, else the real lock
//  * syslog/openlog/closelog -> counters (the only I/O the library performs)
#include "sim.h"
#include <dlfcn.h>
#include <pthread.h>
#include <stdarg.h>
#include <unordered_map>
#include <map>
#include <mutex>

#ifdef VERIF_TSAN
#include <atomic>
// a std::mutex here would be seen by ThreadSanitizer (pthread calls are intercepted even from uninstrumented code) and
// would order every library malloc/free of different threads, hiding real races; plain atomics are invisible to it
struct AcctLock { std::atomic_flag f = ATOMIC_FLAG_INIT; void lock() { while (f.test_and_set(std::memory_order_acquire)) {} } void unlock() { f.clear(std::memory_order_release); } };
#else
typedef std::mutex AcctLock;
#endif

namespace own {
static AcctLock mu;
static std::unordered_map<void *, size_t> *livep;
static u64 n_alloc, n_free, n_free_unknown;
static std::unordered_map<void *, size_t> &L() { if (!livep) livep = new std::unordered_map<void *, size_t>(); return *livep; }
static void on_alloc(void *p, size_t n) { if (!p) return; std::lock_guard<AcctLock> g(mu); L()[p] = n; n_alloc++; }
static void on_free(void *p) {
    if (!p) return;
    std::lock_guard<AcctLock> g(mu);
    auto it = L().find(p);
    if (it == L().end()) { n_free_unknown++; return; }  // caller-owned or pre-existing memory: never an alarm
    L().erase(it); n_free++;
}
size_t live() { std::lock_guard<AcctLock> g(mu); return L().size(); }
size_t live_bytes() { std::lock_guard<AcctLock> g(mu); size_t t = 0; for (auto &kv : L()) t += kv.second; return t; }
u64 allocs() { return n_alloc; }
u64 frees() { return n_free; }
bool owns(void *p) { std::lock_guard<AcctLock> g(mu); return L().count(p) != 0; }
std::vector<std::pair<void *, size_t>> snapshot() { std::lock_guard<AcctLock> g(mu); return std::vector<std::pair<void *, size_t>>(L().begin(), L().end()); }
void forget_all() { std::lock_guard<AcctLock> g(mu); L().clear(); }
}  // namespace own

u64 g_syslog_calls = 0;

// Outside threaded runs there is exactly one client thread: the simulator keeps the books of the library's locks
// itself (never blocking), so a lock the library forgot to release, or takes twice, is a deterministic verdict instead
// of a hang.
struct SeqLock { int writer = 0; int readers = 0; };
static std::map<void *, SeqLock> g_seq_locks;
static bool g_seq_book = false;   // enabled by the engine while a sequential run executes
void seq_locks_enable(bool on) { g_seq_book = on; if (on) g_seq_locks.clear(); }
int seq_locks_held() { int n = 0; for (auto &kv : g_seq_locks) n += kv.second.writer + kv.second.readers; return n; }
void seq_locks_reset() { g_seq_locks.clear(); }
static int seq_lock(void *l, int excl, int is_try) {
    SeqLock &L = g_seq_locks[l];
    bool free_ = excl ? (L.writer == 0 && L.readers == 0) : (L.writer == 0);
    if (!free_) {
        if (!is_try && g_world) g_world->viol("C13 C14 C15 C16 C17 C18", excl ? "lock/self-deadlock-write" : "lock/self-deadlock-read",
                                              "the library asks for a lock it still holds from an earlier call or path (a real caller would block forever)");
        return is_try ? 16 : 35;  /* EBUSY / EDEADLK */
    }
    if (excl) L.writer = 1; else L.readers++;
    return 0;
}
static int seq_unlock(void *l) {
    SeqLock &L = g_seq_locks[l];
    if (L.writer) L.writer = 0;
    else if (L.readers > 0) L.readers--;
    else if (g_world) g_world->viol("C13 C14 C15 C16 C17 C18", "lock/unlock-of-unheld-lock", "the library releases a lock it does not hold");
    return 0;
}

extern "C" {
void *__wrap_malloc(size_t n) { void *p = malloc(n); own::on_alloc(p, n); return p; }
void *__wrap_calloc(size_t a, size_t b) { void *p = calloc(a, b); own::on_alloc(p, a * b); return p; }
void *__wrap_realloc(void *q, size_t n) { void *p = realloc(q, n); if (p || n == 0) own::on_free(q); own::on_alloc(p, n); return p; }
void __wrap_free(void *p) { own::on_free(p); free(p); }
int __wrap_posix_memalign(void **out, size_t al, size_t n) { int r = posix_memalign(out, al, n); if (r == 0) own::on_alloc(*out, n); return r; }
char *__wrap_strdup(const char *s) { char *p = strdup(s); own::on_alloc(p, p ? strlen(p) + 1 : 0); return p; }

// --- dynamic loader calls of the library (the plug-in .so of a backend and its entry points): failing system calls
void *__wrap_dlsym(void *h, const char *name) {
    if (g_dlfail.sym_nth > 0 && --g_dlfail.sym_nth == 0) { g_dlfail.fired++; return nullptr; }
    return dlsym(h, name);
}
void *__wrap_dlopen(const char *f, int fl) {
    if (g_dlfail.open > 0 && --g_dlfail.open == 0) { g_dlfail.fired++; return nullptr; }
    return dlopen(f, fl);
}

// --- locks
// Under the scheduler the simulator is the lock.  In the tsan flavour the granted lock is additionally taken for real
// (try-variants: it cannot block, the simulator already guarantees exclusion) so that ThreadSanitizer records the
// library's lock edges.
#ifdef VERIF_TSAN
static thread_local std::vector<void *> t_real_held;
static void real_after_grant(void *l, int excl, int is_mutex) {
    int rc = is_mutex ? pthread_mutex_trylock((pthread_mutex_t *) l)
                      : (excl ? pthread_rwlock_trywrlock((pthread_rwlock_t *) l) : pthread_rwlock_tryrdlock((pthread_rwlock_t *) l));
    if (rc == 0) t_real_held.push_back(l);
}
static void real_before_release(void *l, int is_mutex) {
    for (size_t i = t_real_held.size(); i-- > 0;)
        if (t_real_held[i] == l) {
            t_real_held.erase(t_real_held.begin() + i);
            if (is_mutex) pthread_mutex_unlock((pthread_mutex_t *) l); else pthread_rwlock_unlock((pthread_rwlock_t *) l);
            return;
        }
}
#else
static inline void real_after_grant(void *, int, int) {}
static inline void real_before_release(void *, int) {}
#endif
#define SEQ (g_seq_book && !sched_active())

int __wrap_pthread_rwlock_rdlock(pthread_rwlock_t *l) { if (SEQ) return seq_lock(l, 0, 0); if (sched_active()) { int r = sched_lock(l, 0); real_after_grant(l, 0, 0); return r; } return pthread_rwlock_rdlock(l); }
int __wrap_pthread_rwlock_wrlock(pthread_rwlock_t *l) { if (SEQ) return seq_lock(l, 1, 0); if (sched_active()) { int r = sched_lock(l, 1); real_after_grant(l, 1, 0); return r; } return pthread_rwlock_wrlock(l); }
int __wrap_pthread_rwlock_tryrdlock(pthread_rwlock_t *l) { if (SEQ) return seq_lock(l, 0, 1); if (sched_active()) { int r = sched_trylock(l, 0); if (!r) real_after_grant(l, 0, 0); return r; } return pthread_rwlock_tryrdlock(l); }
int __wrap_pthread_rwlock_trywrlock(pthread_rwlock_t *l) { if (SEQ) return seq_lock(l, 1, 1); if (sched_active()) { int r = sched_trylock(l, 1); if (!r) real_after_grant(l, 1, 0); return r; } return pthread_rwlock_trywrlock(l); }
int __wrap_pthread_rwlock_unlock(pthread_rwlock_t *l) { if (SEQ) return seq_unlock(l); if (sched_active()) { real_before_release(l, 0); return sched_unlock(l); } return pthread_rwlock_unlock(l); }
int __wrap_pthread_mutex_lock(pthread_mutex_t *l) { if (SEQ) return seq_lock(l, 1, 0); if (sched_active()) { int r = sched_lock(l, 1); real_after_grant(l, 1, 1); return r; } return pthread_mutex_lock(l); }
int __wrap_pthread_mutex_trylock(pthread_mutex_t *l) { if (SEQ) return seq_lock(l, 1, 1); if (sched_active()) { int r = sched_trylock(l, 1); if (!r) real_after_grant(l, 1, 1); return r; } return pthread_mutex_trylock(l); }
int __wrap_pthread_mutex_unlock(pthread_mutex_t *l) { if (SEQ) return seq_unlock(l); if (sched_active()) { real_before_release(l, 1); return sched_unlock(l); } return pthread_mutex_unlock(l); }

// --- syslog (defined in the executable: takes precedence over libc for calls from the .so's)
void syslog(int, const char *, ...) { g_syslog_calls++; }
void vsyslog(int, const char *, va_list) { g_syslog_calls++; }
void __syslog_chk(int, int, const char *, ...) { g_syslog_calls++; }
void openlog(const char *, int, int) {}
void closelog(void) {}
}
