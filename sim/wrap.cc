// Link-time seams (no /repo hook needed): the library .so's are linked with -Wl,--wrap=<sym>, so every
// allocator / lock call made *from library code* lands here; the harness's own calls do not.
//  * allocator  -> exact ownership accounting (never failure injection, see DESIGN §10)
//  * rwlock/mutex -> the simulator's lock when a scheduled (threaded) run is active, else the real lock
//  * syslog/openlog/closelog -> counters (the only I/O the library performs)
#include "sim.h"
#include <pthread.h>
#include <stdarg.h>
#include <unordered_map>
#include <mutex>

namespace own {
static std::mutex mu;
static std::unordered_map<void *, size_t> *livep;
static u64 n_alloc, n_free, n_free_unknown;
static std::unordered_map<void *, size_t> &L() { if (!livep) livep = new std::unordered_map<void *, size_t>(); return *livep; }
static void on_alloc(void *p, size_t n) { if (!p) return; std::lock_guard<std::mutex> g(mu); L()[p] = n; n_alloc++; }
static void on_free(void *p) {
    if (!p) return;
    std::lock_guard<std::mutex> g(mu);
    auto it = L().find(p);
    if (it == L().end()) { n_free_unknown++; return; }  // caller-owned or pre-existing memory: never an alarm
    L().erase(it); n_free++;
}
size_t live() { std::lock_guard<std::mutex> g(mu); return L().size(); }
size_t live_bytes() { std::lock_guard<std::mutex> g(mu); size_t t = 0; for (auto &kv : L()) t += kv.second; return t; }
u64 allocs() { return n_alloc; }
u64 frees() { return n_free; }
bool owns(void *p) { std::lock_guard<std::mutex> g(mu); return L().count(p) != 0; }
std::vector<std::pair<void *, size_t>> snapshot() { std::lock_guard<std::mutex> g(mu); return std::vector<std::pair<void *, size_t>>(L().begin(), L().end()); }
void forget_all() { std::lock_guard<std::mutex> g(mu); L().clear(); }
}  // namespace own

u64 g_syslog_calls = 0;

extern "C" {
void *__wrap_malloc(size_t n) { void *p = malloc(n); own::on_alloc(p, n); return p; }
void *__wrap_calloc(size_t a, size_t b) { void *p = calloc(a, b); own::on_alloc(p, a * b); return p; }
void *__wrap_realloc(void *q, size_t n) { void *p = realloc(q, n); if (p || n == 0) own::on_free(q); own::on_alloc(p, n); return p; }
void __wrap_free(void *p) { own::on_free(p); free(p); }
int __wrap_posix_memalign(void **out, size_t al, size_t n) { int r = posix_memalign(out, al, n); if (r == 0) own::on_alloc(*out, n); return r; }
char *__wrap_strdup(const char *s) { char *p = strdup(s); own::on_alloc(p, p ? strlen(p) + 1 : 0); return p; }

// --- locks
int __wrap_pthread_rwlock_rdlock(pthread_rwlock_t *l) { if (sched_active()) return sched_lock(l, 0); return pthread_rwlock_rdlock(l); }
int __wrap_pthread_rwlock_wrlock(pthread_rwlock_t *l) { if (sched_active()) return sched_lock(l, 1); return pthread_rwlock_wrlock(l); }
int __wrap_pthread_rwlock_tryrdlock(pthread_rwlock_t *l) { if (sched_active()) return sched_trylock(l, 0); return pthread_rwlock_tryrdlock(l); }
int __wrap_pthread_rwlock_trywrlock(pthread_rwlock_t *l) { if (sched_active()) return sched_trylock(l, 1); return pthread_rwlock_trywrlock(l); }
int __wrap_pthread_rwlock_unlock(pthread_rwlock_t *l) { if (sched_active()) return sched_unlock(l); return pthread_rwlock_unlock(l); }
int __wrap_pthread_mutex_lock(pthread_mutex_t *l) { if (sched_active()) return sched_lock(l, 1); return pthread_mutex_lock(l); }
int __wrap_pthread_mutex_trylock(pthread_mutex_t *l) { if (sched_active()) return sched_trylock(l, 1); return pthread_mutex_trylock(l); }
int __wrap_pthread_mutex_unlock(pthread_mutex_t *l) { if (sched_active()) return sched_unlock(l); return pthread_mutex_unlock(l); }

// --- syslog (defined in the executable: takes precedence over libc for calls from the .so's)
void syslog(int, const char *, ...) { g_syslog_calls++; }
void vsyslog(int, const char *, va_list) { g_syslog_calls++; }
void __syslog_chk(int, int, const char *, ...) { g_syslog_calls++; }
void openlog(const char *, int, int) {}
void closelog(void) {}
}
