/*
 * Clean-room stand-in for libisal.so.2, written from ISA-L's public API documentation
 * (erasure_code.h): GF(2^8) with polynomial 0x11d.  Verif-owned; not part of /repo.
 *
 * Knobs (struct isal_stub_ctl, exported) let the simulator vary every behaviour the
 * documentation leaves open and inject the one failure the API can report:
 *   clobber_input   gf_invert_matrix destroys its input matrix (the real library does)
 *   layout          0: nibble product tables (real layout)  1: coefficient in byte 0, junk elsewhere
 *   fail_invert_at  n>0: the n-th gf_invert_matrix call from now reports a singular matrix
 */
#include <string.h>
#include <stdlib.h>

struct isal_stub_ctl {
    int clobber_input;
    int layout;
    int fail_invert_at;
    long n_invert, n_invert_failed_real, n_invert_failed_injected, n_encode, n_init_tables, n_gen;
};
struct isal_stub_ctl isal_stub_ctl = {1, 0, 0, 0, 0, 0, 0, 0, 0};

/* Under the simulator's scheduler every primitive is a yield point (the real library is a separate code base a thread
 * can be preempted in); the statistics are skipped in the ThreadSanitizer flavour, where this file is instrumented so
 * that accesses to buffers owned by the adapters are visible. */
extern void liberasurecode_verif_hook(int kind, const void *obj, const char *site) __attribute__((weak));
#define STUB_YIELD(site) do { if (liberasurecode_verif_hook) liberasurecode_verif_hook(2, 0, (site)); } while (0)
#ifdef ISAL_STUB_NO_COUNTERS
#define COUNT(x) ((void) 0)
#else
#define COUNT(x) (isal_stub_ctl.x++)
#endif

unsigned char gf_mul(unsigned char a, unsigned char b)
{
    unsigned int r = 0, x = a, y = b;
    while (y) {
        if (y & 1) r ^= x;
        x <<= 1;
        if (x & 0x100) x ^= 0x11d;
        y >>= 1;
    }
    return (unsigned char) r;
}

unsigned char gf_inv(unsigned char a)
{
    /* a^254 */
    unsigned char r = 1, p = a;
    int e = 254;
    if (a == 0) return 0;
    while (e) {
        if (e & 1) r = gf_mul(r, p);
        p = gf_mul(p, p);
        e >>= 1;
    }
    return r;
}

void gf_gen_rs_matrix(unsigned char *a, int m, int k)
{
    int i, j;
    unsigned char p, gen = 1;
    COUNT(n_gen);
    memset(a, 0, (size_t) k * m);
    for (i = 0; i < k; i++) a[k * i + i] = 1;
    for (i = k; i < m; i++) {
        p = 1;
        for (j = 0; j < k; j++) {
            a[k * i + j] = p;
            p = gf_mul(p, gen);
        }
        gen = gf_mul(gen, 2);
    }
}

void gf_gen_cauchy1_matrix(unsigned char *a, int m, int k)
{
    int i, j;
    COUNT(n_gen);
    memset(a, 0, (size_t) k * m);
    for (i = 0; i < k; i++) a[k * i + i] = 1;
    for (i = k; i < m; i++)
        for (j = 0; j < k; j++)
            a[k * i + j] = gf_inv((unsigned char) (i ^ j));
}

int gf_invert_matrix(unsigned char *in, unsigned char *out, const int n)
{
    int i, j, c;
    unsigned char *w, t;
    STUB_YIELD("isal.gf_invert_matrix");
    COUNT(n_invert);
    if (isal_stub_ctl.fail_invert_at > 0 && --isal_stub_ctl.fail_invert_at == 0) {
        isal_stub_ctl.n_invert_failed_injected++;   /* only in sequential plans */
        if (isal_stub_ctl.clobber_input) memset(in, 0xA5, (size_t) n * n);
        /* the output of a failed inversion is unspecified: a real elimination has written part of it by then */
        for (i = 0; i < n * n; i++) out[i] = (unsigned char) (0x3c ^ (i * 29));
        return -1;
    }
    w = (unsigned char *) malloc((size_t) n * n + 1);
    memcpy(w, in, (size_t) n * n);
    memset(out, 0, (size_t) n * n);
    for (i = 0; i < n; i++) out[i * n + i] = 1;
    for (c = 0; c < n; c++) {
        int piv = -1;
        for (i = c; i < n; i++) if (w[i * n + c]) { piv = i; break; }
        if (piv < 0) {
            if (isal_stub_ctl.clobber_input) memcpy(in, w, (size_t) n * n);
            free(w);
            COUNT(n_invert_failed_real);
            return -1;
        }
        if (piv != c)
            for (j = 0; j < n; j++) {
                t = w[c * n + j]; w[c * n + j] = w[piv * n + j]; w[piv * n + j] = t;
                t = out[c * n + j]; out[c * n + j] = out[piv * n + j]; out[piv * n + j] = t;
            }
        t = gf_inv(w[c * n + c]);
        for (j = 0; j < n; j++) {
            w[c * n + j] = gf_mul(w[c * n + j], t);
            out[c * n + j] = gf_mul(out[c * n + j], t);
        }
        for (i = 0; i < n; i++) {
            if (i == c) continue;
            t = w[i * n + c];
            if (!t) continue;
            for (j = 0; j < n; j++) {
                w[i * n + j] ^= gf_mul(t, w[c * n + j]);
                out[i * n + j] ^= gf_mul(t, out[c * n + j]);
            }
        }
    }
    if (isal_stub_ctl.clobber_input) memcpy(in, w, (size_t) n * n);
    free(w);
    return 0;
}

void ec_init_tables(int k, int rows, unsigned char *a, unsigned char *g_tbls)
{
    int i, j;
    STUB_YIELD("isal.ec_init_tables");
    COUNT(n_init_tables);
    for (i = 0; i < k * rows; i++) {
        unsigned char c = a[i];
        unsigned char *t = g_tbls + 32 * (size_t) i;
        if (isal_stub_ctl.layout == 0) {
            for (j = 0; j < 16; j++) {
                t[j] = gf_mul(c, (unsigned char) j);
                t[16 + j] = gf_mul(c, (unsigned char) (j << 4));
            }
        } else {
            t[0] = c;
            for (j = 1; j < 32; j++) t[j] = (unsigned char) (0x5a ^ (j * 7) ^ i);
        }
    }
}

void ec_encode_data(int len, int k, int rows, unsigned char *g_tbls,
                    unsigned char **data, unsigned char **coding)
{
    int r, j, i;
    STUB_YIELD("isal.ec_encode_data");
    COUNT(n_encode);
    for (r = 0; r < rows; r++) {
        unsigned char *dst = coding[r];
        if (len > 0) memset(dst, 0, (size_t) len);
        for (j = 0; j < k; j++) {
            const unsigned char *t = g_tbls + 32 * ((size_t) r * k + j);
            const unsigned char *src = data[j];
            if (isal_stub_ctl.layout == 0) {
                for (i = 0; i < len; i++)
                    dst[i] ^= t[src[i] & 15] ^ t[16 + (src[i] >> 4)];
            } else {
                unsigned char c = t[0];
                if (c == 0) continue;
                for (i = 0; i < len; i++)
                    dst[i] ^= gf_mul(c, src[i]);
            }
        }
    }
}
