// Hand-off between parked client threads: raw futex + plain atomics.  Compiled without -fsanitize=thread in the
// tsan flavour so that ThreadSanitizer sees only the library's own synchronisation, never the scheduler's.
#include <atomic>
#include <linux/futex.h>
#include <sys/syscall.h>
#include <unistd.h>
#include <climits>

void baton_park(std::atomic<int> *w) {
    for (;;) {
        int v = w->load(std::memory_order_acquire);
        if (v != 0) { w->store(0, std::memory_order_release); return; }
        syscall(SYS_futex, (int *) w, FUTEX_WAIT_PRIVATE, 0, nullptr, nullptr, 0);
    }
}
void baton_wake(std::atomic<int> *w) {
    w->store(1, std::memory_order_release);
    syscall(SYS_futex, (int *) w, FUTEX_WAKE_PRIVATE, INT_MAX, nullptr, nullptr, 0);
}
