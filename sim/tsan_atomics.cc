// ThreadSanitizer flavour only: atomic operations of the (instrumented) library are calls to __tsan_atomic*.
// Defining them in the executable puts them behind a seam: each one becomes a yield point of the deterministic
// scheduler before it is forwarded to the runtime. Lock-free protocols (a "counter > 0, then increment" fast path in
// front of a mutex, say) then have their windows explored like lock-based ones.  The ASan flavour has no such seam
// (atomics are inline instructions there).
#ifdef VERIF_TSAN
#include "sim.h"
#include <dlfcn.h>

extern "C" void liberasurecode_verif_hook(int kind, const void *obj, const char *site);

template <class F> static F next_sym(const char *name) {
    void *p = dlsym(RTLD_NEXT, name);
    if (!p) { fprintf(stderr, "tsan_atomics: %s not found\n", name); abort(); }
    return (F) p;
}
#define YIELD_ATOMIC() do { if (sched_active()) liberasurecode_verif_hook(2, nullptr, "atomic"); } while (0)

#define DEF_WIDTH(T, W)                                                                                                   \
    extern "C" __attribute__((visibility("default"))) T __tsan_atomic##W##_load(const volatile T *a, int mo) {            \
        static auto real = next_sym<T (*)(const volatile T *, int)>("__tsan_atomic" #W "_load");                          \
        YIELD_ATOMIC(); return real(a, mo); }                                                                             \
    extern "C" __attribute__((visibility("default"))) void __tsan_atomic##W##_store(volatile T *a, T v, int mo) {         \
        static auto real = next_sym<void (*)(volatile T *, T, int)>("__tsan_atomic" #W "_store");                         \
        YIELD_ATOMIC(); real(a, v, mo); }                                                                                 \
    extern "C" __attribute__((visibility("default"))) T __tsan_atomic##W##_exchange(volatile T *a, T v, int mo) {         \
        static auto real = next_sym<T (*)(volatile T *, T, int)>("__tsan_atomic" #W "_exchange");                         \
        YIELD_ATOMIC(); return real(a, v, mo); }                                                                          \
    extern "C" __attribute__((visibility("default"))) T __tsan_atomic##W##_fetch_add(volatile T *a, T v, int mo) {        \
        static auto real = next_sym<T (*)(volatile T *, T, int)>("__tsan_atomic" #W "_fetch_add");                        \
        YIELD_ATOMIC(); return real(a, v, mo); }                                                                          \
    extern "C" __attribute__((visibility("default"))) T __tsan_atomic##W##_fetch_sub(volatile T *a, T v, int mo) {        \
        static auto real = next_sym<T (*)(volatile T *, T, int)>("__tsan_atomic" #W "_fetch_sub");                        \
        YIELD_ATOMIC(); return real(a, v, mo); }                                                                          \
    extern "C" __attribute__((visibility("default"))) T __tsan_atomic##W##_fetch_or(volatile T *a, T v, int mo) {         \
        static auto real = next_sym<T (*)(volatile T *, T, int)>("__tsan_atomic" #W "_fetch_or");                         \
        YIELD_ATOMIC(); return real(a, v, mo); }                                                                          \
    extern "C" __attribute__((visibility("default"))) T __tsan_atomic##W##_fetch_and(volatile T *a, T v, int mo) {        \
        static auto real = next_sym<T (*)(volatile T *, T, int)>("__tsan_atomic" #W "_fetch_and");                        \
        YIELD_ATOMIC(); return real(a, v, mo); }                                                                          \
    extern "C" __attribute__((visibility("default"))) int __tsan_atomic##W##_compare_exchange_strong(volatile T *a, T *c, T v, int mo, int fmo) { \
        static auto real = next_sym<int (*)(volatile T *, T *, T, int, int)>("__tsan_atomic" #W "_compare_exchange_strong"); \
        YIELD_ATOMIC(); return real(a, c, v, mo, fmo); }                                                                  \
    extern "C" __attribute__((visibility("default"))) int __tsan_atomic##W##_compare_exchange_weak(volatile T *a, T *c, T v, int mo, int fmo) { \
        static auto real = next_sym<int (*)(volatile T *, T *, T, int, int)>("__tsan_atomic" #W "_compare_exchange_weak");  \
        YIELD_ATOMIC(); return real(a, c, v, mo, fmo); }                                                                  \
    extern "C" __attribute__((visibility("default"))) T __tsan_atomic##W##_compare_exchange_val(volatile T *a, T c, T v, int mo, int fmo) { \
        static auto real = next_sym<T (*)(volatile T *, T, T, int, int)>("__tsan_atomic" #W "_compare_exchange_val");     \
        YIELD_ATOMIC(); return real(a, c, v, mo, fmo); }

DEF_WIDTH(unsigned char, 8)
DEF_WIDTH(unsigned short, 16)
DEF_WIDTH(unsigned int, 32)
DEF_WIDTH(unsigned long, 64)
#endif
