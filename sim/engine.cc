// Plan executor: runs one plan against the real library and, in lock-step, against the reference models.
#include "sim.h"
#include <dlfcn.h>
#include <limits.h>
#include <errno.h>
#include <algorithm>
#include <memory>

World *g_world = nullptr;
Arena &thread_arena() { static thread_local std::unique_ptr<Arena> a; if (!a) a.reset(new Arena()); return *a; }
thread_local DlFail g_dlfail;
thread_local BFail g_bfail;   // per OS thread: a failure attached to one task's call must not be consumed by another's
bool announce_ops = false;
Cur &cur() { static thread_local Cur c; return c; }

// ------------------------------------------------------------------ internal symbols (weak: a refactor must not break the link)
extern "C" {
extern ec_backend_t ec_backends_supported[] __attribute__((weak));
extern int next_backend_desc __attribute__((weak));
extern int is_invalid_fragment_header(fragment_header_t *header) __attribute__((weak));
}
void isal_reset(); long isal_injected_failures(); void isal_set_knobs(int clobber, int layout);

const char *be_name(int be) {
    static const char *n[] = {"null", "jerasure_rs_vand", "jerasure_rs_cauchy", "flat_xor_hd", "isa_l_rs_vand", "shss",
                              "liberasurecode_rs_vand", "isa_l_rs_cauchy", "libphazr"};
    return (be >= 0 && be < 9) ? n[be] : "invalid";
}

// ------------------------------------------------------------------ backend op interposers (seam S3)
static struct ec_backend_op_stubs g_orig_ops[EC_BACKENDS_MAX];
static bool g_ops_hooked[EC_BACKENDS_MAX];

static bool bfail_take(int bop) {
    if (g_bfail.bop != bop) return false;
    g_bfail.fired++;
    return true;
}
template <int B> static void *tr_init(struct ec_backend_args *a, void *so) {
    if (bfail_take(BOP_INIT)) {
        if (g_bfail.mode == 0) return nullptr;
        void *d = g_orig_ops[B].init(a, so);
        if (d) g_orig_ops[B].exit(d);  // backend did the work, then reports failure: it owns its cleanup
        return nullptr;
    }
    return g_orig_ops[B].init(a, so);
}
template <int B> static int tr_encode(void *d, char **data, char **par, int bs) {
    if (bfail_take(BOP_ENCODE)) { if (g_bfail.mode) g_orig_ops[B].encode(d, data, par, bs); return g_bfail.rc; }
    return g_orig_ops[B].encode(d, data, par, bs);
}
template <int B> static int tr_decode(void *d, char **data, char **par, int *miss, int bs) {
    if (bfail_take(BOP_DECODE)) { if (g_bfail.mode) g_orig_ops[B].decode(d, data, par, miss, bs); return g_bfail.rc; }
    return g_orig_ops[B].decode(d, data, par, miss, bs);
}
template <int B> static int tr_recon(void *d, char **data, char **par, int *miss, int dst, int bs) {
    if (bfail_take(BOP_RECONSTRUCT)) { if (g_bfail.mode) g_orig_ops[B].reconstruct(d, data, par, miss, dst, bs); return g_bfail.rc; }
    return g_orig_ops[B].reconstruct(d, data, par, miss, dst, bs);
}
template <int B> static int tr_needed(void *d, int *miss, int *excl, int *need) {
    if (bfail_take(BOP_FRAGSNEEDED)) { if (g_bfail.mode) g_orig_ops[B].fragments_needed(d, miss, excl, need); return g_bfail.rc; }
    return g_orig_ops[B].fragments_needed(d, miss, excl, need);
}
template <int B> static void hook_backend() {
    if (!&ec_backends_supported || B >= EC_BACKENDS_MAX) return;
    ec_backend_t b = ec_backends_supported[B];
    if (!b || !b->common.ops) return;
    struct ec_backend_op_stubs *o = b->common.ops;
    g_orig_ops[B] = *o;
    o->init = tr_init<B>; o->encode = tr_encode<B>; o->decode = tr_decode<B>;
    o->reconstruct = tr_recon<B>; o->fragments_needed = tr_needed<B>;
    g_ops_hooked[B] = true;
}
void engine_global_init() {
    hook_backend<0>(); hook_backend<1>(); hook_backend<2>(); hook_backend<3>(); hook_backend<4>();
    hook_backend<5>(); hook_backend<6>(); hook_backend<7>(); hook_backend<8>();
}

// ------------------------------------------------------------------ world
void World::viol(const char *props, const std::string &sig, const std::string &detail) {
    if (!judging(props)) return;
    if (viols.size() >= 16) return;
    // races and scheduler verdicts are properties of the interleaving, not of the operation that happened to observe them
    bool global = sig.compare(0, 10, "data-race/") == 0 || sig.compare(0, 10, "scheduler/") == 0;
    std::string s = global ? prop + "/" + sig : prop + "/" + cur().kind + "/" + sig;
    for (auto &v : viols) if (v.sig == s) return;  // one per signature per run
    viols.push_back(Violation{prop, s, detail, cur().op});
    trace.adds("viol", s);
}

void set_env(World &W, bool set, const std::string &v) {
    if (set) setenv("LIBERASURECODE_WRITE_LEGACY_CRC", v.c_str(), 1);
    else unsetenv("LIBERASURECODE_WRITE_LEGACY_CRC");
    W.env_set = set; W.env_val = v;
}
static bool env_legacy(const World &W) { return W.env_set && ref::legacy_switch(W.env_val.c_str()); }

ref::InstView inst_view(World &W, const Slot &s) {
    ref::InstView I;
    I.k = s.cfg.k; I.m = s.cfg.m; I.beid = s.cfg.be; I.bever = s.bever; I.any_bever = (s.cfg.be == EC_BACKEND_NULL);
    I.running_version = W.running_version;
    return I;
}

void world_begin(World &W, const Json &plan) {
    g_world = &W;
    W.prop = plan["prop"].str();
    W.tier = plan["tier"].str();
    W.running_version = liberasurecode_get_version();
    set_env(W, false, "");
    g_bfail = BFail();
    isal_reset();
    if (plan.has("isal")) isal_set_knobs(plan["isal"]["clobber"].in(1), plan["isal"]["layout"].in(0));   // fixed for the whole run
    if (&next_backend_desc) next_backend_desc = 0;   // every run starts from the same registry state
    W.baseline_live = own::live();
    seq_locks_enable(true);
    W.trace.adds("prop", W.prop);
}

static void destroy_slot(World &W, Slot &s) {
    int rc = liberasurecode_instance_destroy(s.desc);
    W.trace.add("destroy.rc", rc);
    if (rc != 0) W.viol("C14 C16 C18", "destroy-live-failed", "destroy of live descriptor returned " + std::to_string(rc));
    W.live_descs.erase(s.desc);
    W.dead_descs.insert(s.desc);
    s.live = false;
}

void world_end(World &W) {
    cur().op = -2; cur().kind = "END"; cur().api = "destroy";
    for (auto &s : W.slots) if (s.live) destroy_slot(W, s);
    thread_arena().release_all();
    set_env(W, false, "");
    for (auto &nm : W.other_env) unsetenv(nm.c_str());
    size_t now = own::live() - (size_t) W.orphan_blocks;
    W.trace.add("end.live", (i64) now - (i64) W.baseline_live);
    if (now != W.baseline_live) {
        W.viol("C16 C17 C13 C14", "leak-at-quiescence",
               "after destroying every instance the library still holds " + std::to_string((long) now - (long) W.baseline_live) +
               " block(s) it allocated during this run");
        // keep later runs in this process independent of this one
    }
    seq_locks_enable(false);
    g_world = nullptr;
}

// ------------------------------------------------------------------ helpers
static inline bool bytes_differ(const void *a, const void *b, size_t n) { return n != 0 && memcmp(a, b, n) != 0; }
// The CRC (either flavour) is affine over GF(2) in the last four bytes of the buffer: solve them so that the CRC is `target`.
static bool force_crc(std::vector<u8> &d, u32 target, bool legacy) {
    u64 len = d.size();
    if (len < 4) return false;
    auto crc = [&](void) { return legacy ? ref::crc_legacy(d.data(), len) : ref::crc_std(d.data(), len); };
    memset(&d[len - 4], 0, 4);
    u32 c0 = crc();
    u32 col[32];
    for (int b = 0; b < 32; b++) { d[len - 4 + b / 8] = (u8) (1u << (b % 8)); col[b] = crc() ^ c0; d[len - 4 + b / 8] = 0; }
    u32 want = target ^ c0, x = 0; u32 basis[32] = {0}, comb[32] = {0};
    for (int b = 0; b < 32; b++) {
        u32 v = col[b], cm = 1u << b;
        for (int t = 31; t >= 0 && v; t--) if ((v >> t) & 1) { if (!basis[t]) { basis[t] = v; comb[t] = cm; v = 0; break; } v ^= basis[t]; cm ^= comb[t]; }
    }
    for (int t = 31; t >= 0 && want; t--) if ((want >> t) & 1) { if (!basis[t]) break; want ^= basis[t]; x ^= comb[t]; }
    for (int b = 0; b < 32; b++) if ((x >> b) & 1) d[len - 4 + b / 8] |= (u8) (1u << (b % 8));
    return want == 0;
}
static std::vector<u8> make_data(u64 len, int pat, u64 dseed) {
    std::vector<u8> d(len);
    Rng r(dseed);
    switch (pat) {
    case 1: { u8 c = (u8) r.below(256); std::fill(d.begin(), d.end(), c); break; }
    case 2: for (u64 i = 0; i < len; i++) d[i] = (u8) (i + dseed); break;
    case 3: if (len) d[r.below(len)] = (u8) (1 + r.below(255)); break;
    case 4: std::fill(d.begin(), d.end(), 0xff); break;
    case 5: case 6: case 7: {
        // random bytes whose standard CRC-32 is exactly 0 (pat 5) or 0xffffffff (pat 6): special values a stored checksum
        // can take (pat 7 starts the same way; op_put then re-solves for the value that makes the *header's* CRC zero)
        for (u64 i = 0; i < len; i++) d[i] = (u8) r.next();
        force_crc(d, pat == 6 ? 0xffffffffu : 0u, false);
        break;
    }
    default:
        for (u64 i = 0; i + 8 <= len; i += 8) { u64 v = r.next(); memcpy(&d[i], &v, 8); }
        for (u64 i = len & ~7ULL; i < len; i++) d[i] = (u8) r.next();
    }
    return d;
}

static void reseal(std::vector<u8> &b, int how) {
    if (b.size() < ref::HDR || how == 0) return;
    bool sw = ref::view(b.data()).swapped;
    u32 c = how == 2 ? ref::crc_legacy(b.data(), ref::META) : ref::crc_std(b.data(), ref::META);
    ref::st32(&b[ref::OFF_METACRC], sw ? ref::bswap32(c) : c);
}

static void to_foreign_endian(std::vector<u8> &b) {
    if (b.size() < ref::HDR) return;
    // a writer that sealed its header seals the foreign image too; one that wrote no (or a wrong) checksum - releases before
    // 1.2.0 - leaves the same word there, in its own byte order
    u32 stored = ref::ld32(&b[ref::OFF_METACRC]);
    bool sealed = stored == ref::crc_std(b.data(), ref::META) || stored == ref::crc_legacy(b.data(), ref::META);
    auto sw32 = [&](int off) { std::swap(b[off], b[off + 3]); std::swap(b[off + 1], b[off + 2]); };
    sw32(ref::OFF_IDX); sw32(ref::OFF_SIZE); sw32(ref::OFF_BEMETA);
    std::reverse(b.begin() + ref::OFF_ORIGLEN, b.begin() + ref::OFF_ORIGLEN + 8);
    for (int i = 0; i < 8; i++) sw32(ref::OFF_CHKSUM + 4 * i);
    sw32(ref::OFF_BEVER); sw32(ref::OFF_MAGIC); sw32(ref::OFF_LIBVER);
    // the foreign writer computed its metadata CRC over *its* byte image and stored it in its byte order
    u32 c = ref::crc_std(b.data(), ref::META);
    ref::st32(&b[ref::OFF_METACRC], ref::bswap32(sealed ? c : stored));
}

static int field_off(const std::string &f, int *width) {
    *width = 4;
    if (f == "idx") return ref::OFF_IDX;
    if (f == "size") return ref::OFF_SIZE;
    if (f == "bemeta") return ref::OFF_BEMETA;
    if (f == "origlen") { *width = 8; return ref::OFF_ORIGLEN; }
    if (f == "ct") { *width = 1; return ref::OFF_CT; }
    if (f == "chksum0") return ref::OFF_CHKSUM;
    if (f.size() == 7 && f.compare(0, 6, "chksum") == 0 && f[6] >= '1' && f[6] <= '7') return ref::OFF_CHKSUM + 4 * (f[6] - '0');
    if (f == "mismatch") { *width = 1; return ref::OFF_MISMATCH; }
    if (f == "beid") { *width = 1; return ref::OFF_BEID; }
    if (f == "bever") return ref::OFF_BEVER;
    if (f == "magic") return ref::OFF_MAGIC;
    if (f == "libver") return ref::OFF_LIBVER;
    if (f == "metacrc") return ref::OFF_METACRC;
    return -1;
}

// apply one fault list to a delivered / scrubbed copy of a stored fragment
static void apply_fx(World &W, std::vector<u8> &b, const Json &fx, const Obj *o, int dev) {
    for (size_t i = 0; i < fx.size(); i++) {
        const Json &f = fx[i];
        const std::string &k = f["k"].str();
        if (b.empty() && k != "misdirect") continue;
        if (k == "flip") {
            u64 bit = (u64) f["bit"].num() % (b.size() * 8);
            b[bit / 8] ^= (u8) (1u << (bit % 8));
            W.fault(bit / 8 < ref::HDR ? "FLIP.header" : "FLIP.payload");
        } else if (k == "burst") {
            u64 off = (u64) f["off"].num() % b.size();
            u64 n = std::min<u64>((u64) std::max<i64>(1, f["n"].num(1)), b.size() - off);
            Rng r((u64) f["seed"].num());
            for (u64 j = 0; j < n; j++) b[off + j] = (u8) r.next();
            W.fault(off < ref::HDR ? "BURST.header" : "BURST.payload");
        } else if (k == "set") {
            u64 off = (u64) f["off"].num() % b.size();
            b[off] = (u8) f["val"].num();
            W.fault(off < ref::HDR ? "SET.header" : "SET.payload");
        } else if (k == "field") {
            int wdt; int off = field_off(f["f"].str(), &wdt);
            if (off < 0 || b.size() < ref::HDR) continue;
            u64 v = (u64) f["val"].num();
            bool sw = ref::view(b.data()).swapped;
            if (wdt == 1) b[off] = (u8) v;
            else if (wdt == 4) ref::st32(&b[off], sw ? ref::bswap32((u32) v) : (u32) v);
            else ref::st64(&b[off], v);
            reseal(b, f["seal"].in(0));
            W.fault(f["seal"].in(0) ? "RESEAL." + f["f"].str() : "FIELD." + f["f"].str());
        } else if (k == "endian") {
            to_foreign_endian(b);
            W.fault("FOREIGN_ENDIAN");
        } else if (k == "legacyseal") {  // header CRC replaced by the historical variant (a pre-fix writer)
            reseal(b, 2);
            W.fault("LEGACY_SEAL");
        } else if (k == "misdirect") {
            const Obj &src = W.objs[(size_t) f["obj"].num() % World::NOBJ];
            if (!src.valid || src.dev.empty()) continue;
            const std::vector<u8> &s = src.dev[(size_t) f["dev"].num() % src.dev.size()];
            size_t n = b.size();
            b.assign(n, 0);
            if (n && s.size()) memcpy(b.data(), s.data(), std::min(n, s.size()));
            W.fault("MISDIRECT");
        } else if (k == "stale") {
            if (o && dev >= 0 && (size_t) dev < o->prev.size() && o->prev[dev].size() == b.size()) { b = o->prev[dev]; W.fault("STALE"); }
        } else if (k == "torn") {
            u64 p = (u64) f["prefix"].num() % (b.size() + 1);
            bool haveprev = o && dev >= 0 && (size_t) dev < o->prev.size() && o->prev[dev].size() == b.size();
            for (u64 j = p; j < b.size(); j++) b[j] = haveprev ? o->prev[dev][j] : 0;
            W.fault(p < ref::HDR ? "TORN.header" : "TORN.payload");
        }
    }
}

// tolerance predicate from the property texts (never from the code)
static bool within_tolerance(const Cfg &c, u64 avail_mask) {
    int n = c.n(); int have = __builtin_popcountll(avail_mask & ((n >= 64) ? ~0ULL : ((1ULL << n) - 1)));
    int er = n - have;
    switch (c.be) {
    case EC_BACKEND_LIBERASURECODE_RS_VAND: return er <= c.m;
    case EC_BACKEND_FLAT_XOR_HD: return er < c.hd;
    case EC_BACKEND_ISA_L_RS_VAND: return er <= c.m && ref::isal_first_k_invertible(false, c.k, c.m, avail_mask);
    case EC_BACKEND_ISA_L_RS_CAUCHY: return er <= c.m && ref::isal_first_k_invertible(true, c.k, c.m, avail_mask);
    default: return false;
    }
}
static bool coded_backend(int be) {
    return be == EC_BACKEND_LIBERASURECODE_RS_VAND || be == EC_BACKEND_FLAT_XOR_HD || be_is_isal(be);
}
static std::string regime(const Cfg &c, int erasures) {
    if (c.be == EC_BACKEND_FLAT_XOR_HD) return erasures < c.hd ? "erasures<hd" : (erasures <= c.m ? "hd<=erasures<=m" : "erasures>m");
    return erasures <= c.m ? "erasures<=m" : "erasures>m";
}

struct Delivered {
    std::vector<std::vector<u8>> bufs;
    std::vector<char *> ptrs;
    std::vector<int> devs;
    bool all_pristine = true;
    bool any_bad_consume = false;
    u64 pristine_mask = 0;  // indexes for which a pristine fragment was delivered
    u64 usable_mask = 0;    // pristine, or valid under the reference with index/sizes/checksum/payload equal to the original's (C20)
    bool all_pristine_or_invalid = true;
    bool sizes_sane = true;
};

static Delivered deliver(World &W, const Obj &o, const Slot &s, const Json &dl, const Json &fxall = Json(), size_t slack = 0) {
    Delivered D;
    ref::InstView I = inst_view(W, s);
    int n = (int) o.dev.size();
    std::map<int, size_t> first_plain; size_t nsame = 0;   // device -> first delivery of it without damage
    for (size_t i = 0; i < dl.size(); i++) {
        const Json &e = dl[i];
        int dev = n ? (int) ((u64) e["dev"].num() % (u64) n) : 0;
        bool capped = dl.size() > 1000 && D.ptrs.size() - nsame >= 200 && first_plain.count(dev);   // enormous lists: at most 200 separately placed buffers (the arena is finite), the rest repeat the first plain copy
        if (capped) W.probe("deliver.flood-capped");
        if (capped || (e["same"].in(0) && !e.has("fx") && !fxall.size())) {
            // fast path for repeats of the very same buffer (lists of 100k entries): no copy, nothing new to judge
            auto it = first_plain.find(dev);
            if (it != first_plain.end()) { D.bufs.emplace_back(); D.ptrs.push_back(D.ptrs[it->second]); D.devs.push_back(dev); nsame++; continue; }
        }
        std::vector<u8> b = o.dev[dev];
        apply_fx(W, b, e["fx"], &o, dev);
        if (fxall.size()) apply_fx(W, b, fxall, &o, dev);   // the same edit on every delivered fragment (a consistently wrong writer)
        bool pr = (b == o.orig[dev]);
        bool okc = b.size() >= ref::HDR && ref::accept_consume(b.data());
        if (!okc) D.any_bad_consume = true;
        if (pr) { D.pristine_mask |= 1ULL << dev; D.usable_mask |= 1ULL << dev; }
        else {
            D.all_pristine = false;
            bool inv = b.size() < ref::HDR || ref::invalid(I, b.data(), b.size());
            if (!inv) {
                // valid but not byte-identical: still a legitimate member of the stripe if everything decode relies on is unchanged
                const std::vector<u8> &og = o.orig[dev];
                ref::Fields fa = ref::fields(b.data()), fb = ref::fields(og.data());
                bool equiv = b.size() == og.size() && fa.idx == fb.idx && fa.size == fb.size && fa.bemeta == fb.bemeta && fa.origlen == fb.origlen &&
                             fa.ct == fb.ct && fa.chksum0 == fb.chksum0 && fa.beid == fb.beid && fa.bever == fb.bever &&
                             (b.size() == ref::HDR || memcmp(b.data() + ref::HDR, og.data() + ref::HDR, b.size() - ref::HDR) == 0);
                if (equiv) { D.usable_mask |= 1ULL << dev; W.probe("deliver.valid-equivalent"); }
                else D.all_pristine_or_invalid = false;
            }
            if (okc) {
                ref::Fields f = ref::fields(b.data());
                // headers that lie about sizes make the library trust wrong lengths: outside every claimed oracle
                if ((u64) f.size + ref::HDR != o.flen || f.bemeta != 0) D.sizes_sane = false;
            }
        }
        int al = e["al"].in(0);
        char *p = nullptr;
        if (e["same"].in(0) && !e.has("fx"))   // same pointer as an earlier, undamaged delivery of this device
            for (size_t q = 0; q < D.devs.size(); q++) if (D.devs[q] == dev && D.bufs[q] == b) { p = D.ptrs[q]; W.fault("DUP.same-pointer"); break; }
        if (!p && slack) {   // the caller keeps fragments in roomier slots and passes the slot size as the fragment length
            std::vector<u8> bp = b; for (size_t z = 0; z < slack; z++) bp.push_back((u8) (0xC3 ^ (z * 13)));
            p = (char *) thread_arena().place(bp.data(), bp.size(), al == 16 ? Arena::RIGHT : (al & 15));
        }
        if (!p) p = (char *) thread_arena().place(b.data(), b.size(), al == 16 ? Arena::RIGHT : (al & 15));
        if (((uintptr_t) p & 15) != 0) W.fault("MISALIGN");
        if (!e.has("fx") && !fxall.size() && !first_plain.count(dev)) first_plain[dev] = D.ptrs.size();
        D.bufs.push_back(std::move(b));
        D.ptrs.push_back(p);
        D.devs.push_back(dev);
    }
    if (nsame) { W.fault("DUP.same-pointer"); if (nsame > 1000) W.fault("DUP.flood-100k"); }
    // delivery-shape faults (counted as fired, not configured)
    {
        std::set<int> seen; bool dup = false, reord = false; int last = -1;
        for (int d : D.devs) { if (!seen.insert(d).second) dup = true; if (d < last) reord = true; last = d; }
        if (dup) W.fault("DUP");
        if (reord) W.fault("REORDER");
        if ((int) seen.size() > s.cfg.k) W.fault("SURPLUS");
        if ((int) seen.size() < n) W.fault("LOSE");
    }
    return D;
}

static void arm_bfail(World &W, const Json &op) {
    g_bfail = BFail();
    if (!op.has("bfail")) return;
    const Json &b = op["bfail"];
    g_bfail.bop = b["bop"].in(); g_bfail.mode = b["mode"].in(0); g_bfail.rc = b["rc"].in(-1);
    if (g_bfail.rc >= 0) g_bfail.rc = -1;
}
static bool disarm_bfail(World &W) {
    bool fired = g_bfail.fired > 0;
    if (fired) W.fault(std::string("BACKEND_FAIL.") + (g_bfail.bop == BOP_INIT ? "init" : g_bfail.bop == BOP_ENCODE ? "encode" :
                       g_bfail.bop == BOP_DECODE ? "decode" : g_bfail.bop == BOP_RECONSTRUCT ? "reconstruct" : "fragments_needed"));
    g_bfail = BFail();
    return fired;
}

// ------------------------------------------------------------------ ops
static void op_create(World &W, const Json &op) {
    Slot &s = W.slots[(size_t) op["slot"].num() % World::NSLOT];
    if (s.live) { destroy_slot(W, s); }
    Cfg c; c.be = op["be"].in(); c.k = op["k"].in(); c.m = op["m"].in(); c.hd = op["hd"].in(); c.w = op["w"].in(0); c.ct = op["ct"].in(1);
    struct ec_args a; memset(&a, 0, sizeof a);
    a.k = c.k; a.m = c.m; a.hd = c.hd; a.w = c.w; a.ct = (ec_checksum_type_t) c.ct;
    cur().api = "instance_create";
    size_t live0 = own::live();
    arm_bfail(W, op);
    g_dlfail = DlFail();
    if (op.has("dlfail")) { g_dlfail.sym_nth = op["dlfail"]["sym"].in(0); g_dlfail.open = op["dlfail"]["open"].in(0); }
    int d = liberasurecode_instance_create((ec_backend_id_t) c.be, &a);
    bool fired = disarm_bfail(W);
    if (g_dlfail.fired) { fired = true; W.fault(g_dlfail.open || !op["dlfail"]["sym"].in(0) ? "LOADER_FAIL.dlopen" : "LOADER_FAIL.dlsym"); }
    g_dlfail = DlFail();
    W.trace.add("create.ok", d > 0);
    bool expect_ok = op["expect"].in(1) != 0;
    if (fired) {
        if (d > 0) {
            W.viol("C17", "init-failure-swallowed", "backend init reported failure but instance_create returned a descriptor");
            liberasurecode_instance_destroy(d);
        } else if (leaked(W, live0))
            W.viol("C17 C16", "init-failure-leak", "failed create retained " + std::to_string((long) own::live() - (long) live0) + " block(s)");
        return;
    }
    if (d > 0) {
        if (W.live_descs.count(d)) W.viol("C14 C18", "descriptor-not-unique", "create returned live descriptor " + std::to_string(d));
        s.live = true; s.desc = d; s.cfg = c; s.bever_known = false;
        // w is an in/out detail of the backends; learn the effective one for length generation only
        W.live_descs.insert(d); W.dead_descs.erase(d);
        W.probe("create.ok." + std::string(be_name(c.be)));
        if (!expect_ok && op.has("expect"))
            W.viol("C05 C13", std::string("create-accepted-unsupported/") + be_name(c.be), "a configuration that must be refused (k<1, m<0, k+m>32 or unsupported flat-XOR shape) was accepted: k=" + std::to_string(c.k) + " m=" + std::to_string(c.m) + " hd=" + std::to_string(c.hd));
    } else {
        if (d == 0) W.viol("C13 C14", "create-returned-zero", "instance_create returned 0: neither a descriptor nor an error");
        if (leaked(W, live0))
            W.viol("C13 C14 C16", "failed-create-leak", "refused create retained " + std::to_string((long) own::live() - (long) live0) + " block(s)");
        if (expect_ok && op.has("expect"))
            W.viol("C01 C05 C19 C13 C14 C17 C18", std::string("create-refused/") + be_name(c.be), "a supported configuration was refused: rc=" + std::to_string(d));
        W.probe("create.refused");
    }
}

static void op_destroy(World &W, const Json &op) {
    Slot &s = W.slots[(size_t) op["slot"].num() % World::NSLOT];
    if (!s.live) return;
    cur().api = "instance_destroy";
    destroy_slot(W, s);
}

static void learn_bever(World &W, Slot &s, const u8 *frag) {
    if (!s.bever_known) { s.bever = ref::ld32(frag + ref::OFF_BEVER); s.bever_known = true; }
}

static void op_put(World &W, const Json &op) {
    Slot &s = W.slots[(size_t) op["slot"].num() % World::NSLOT];
    if (!s.live) return;
    Obj &o = W.objs[(size_t) op["obj"].num() % World::NOBJ];
    if (op.has("env")) { if (op["env"].isnull()) set_env(W, false, ""); else set_env(W, true, op["env"].str()); W.fault("ENV"); }
    u64 len = (u64) op["len"].num();
    std::vector<u8> data = make_data(len, op["pat"].in(0), (u64) op["dseed"].num());
    int al = op["al"].in(16);
    if ((op["pat"].in(0) == 8 || op["pat"].in(0) == 9) && s.cfg.k >= 1) {
        // payloads that look like fragments (a stored object may itself be a fragment): the header magic at the header's
        // magic offset of every data block (8), or a whole valid header at the start of every data block (9)
        int fs = liberasurecode_get_fragment_size(s.desc, (int) len);
        const std::vector<u8> *hdr = nullptr;
        for (auto &ob : W.objs) if (ob.valid && !ob.orig.empty() && ob.orig[0].size() >= ref::HDR) { hdr = &ob.orig[0]; break; }
        if (fs > (int) ref::HDR) {
            u64 bs = (u64) fs - ref::HDR;
            for (int i = 0; i < s.cfg.k; i++) {
                u64 base = (u64) i * bs;
                if (op["pat"].in(0) == 9 && hdr && base + ref::HDR <= len) memcpy(&data[base], hdr->data(), ref::HDR);
                else if (base + ref::OFF_MAGIC + 4 <= len) ref::st32(&data[base + ref::OFF_MAGIC], (i & 1) ? ref::bswap32(ref::MAGIC) : ref::MAGIC);
            }
            W.fault("DATA.looks-like-a-fragment");
        }
    }
    if (op["pat"].in(0) == 7 && s.cfg.k == 1 && s.cfg.ct == ref::CT_CRC32 && len >= 4 && !op.has("bfail")) {
        // data chosen so that the *metadata* checksum of data fragment 0 comes out as exactly 0 (a legal CRC value): a first
        // encode shows the header this instance writes; its CRC is affine in the stored payload checksum T, so solve T, then
        // solve the data's last four bytes for a payload CRC of T
        char **e0 = nullptr, **p0 = nullptr; u64 f0 = 0;
        char *in0 = (char *) thread_arena().place(data.data(), data.size(), Arena::RIGHT);
        cur().api = "encode";
        if (liberasurecode_encode(s.desc, in0, len, &e0, &p0, &f0) == 0) {
            bool lg = env_legacy(W);
            if (f0 >= ref::HDR && ref::ld32((u8 *) e0[0] + ref::OFF_SIZE) == len) {
                auto hcrc = [&](u32 T) { std::vector<u8> h((u8 *) e0[0], (u8 *) e0[0] + ref::META); ref::st32(&h[ref::OFF_CHKSUM], T); return lg ? ref::crc_legacy(h.data(), ref::META) : ref::crc_std(h.data(), ref::META); };
                u32 c0 = hcrc(0), col[32]; for (int b = 0; b < 32; b++) col[b] = hcrc(1u << b) ^ c0;
                u32 want = c0, T = 0, basis[32] = {0}, comb[32] = {0};
                for (int b = 0; b < 32; b++) { u32 v = col[b], cm = 1u << b; for (int t = 31; t >= 0 && v; t--) if ((v >> t) & 1) { if (!basis[t]) { basis[t] = v; comb[t] = cm; v = 0; break; } v ^= basis[t]; cm ^= comb[t]; } }
                for (int t = 31; t >= 0 && want; t--) if ((want >> t) & 1) { if (!basis[t]) break; want ^= basis[t]; T ^= comb[t]; }
                if (want == 0 && force_crc(data, T, lg)) W.fault("DATA.header-crc-zero");
            }
            liberasurecode_encode_cleanup(s.desc, e0, p0);
        }
        thread_arena().release_all();
    }
    char *in = (char *) thread_arena().place(data.data(), data.size(), al == 16 ? Arena::RIGHT : (al & 15));
    char **ed = nullptr, **ep = nullptr; u64 flen = 0;
    size_t live0 = own::live();
    cur().api = "encode";
    arm_bfail(W, op);
    int rc = liberasurecode_encode(s.desc, in, len, &ed, &ep, &flen);
    bool fired = disarm_bfail(W);
    W.trace.add("put.rc", rc);
    if (fired) {
        if (rc >= 0) { W.viol("C17", "encode-failure-swallowed", "backend encode failed, public rc=" + std::to_string(rc)); if (rc == 0) liberasurecode_encode_cleanup(s.desc, ed, ep); }
        else if (leaked(W, live0)) W.viol("C17 C16", "encode-failure-leak", "failed encode retained " + std::to_string((long) own::live() - (long) live0) + " block(s)");
        thread_arena().release_all();
        return;
    }
    if (rc != 0) {
        W.viol("C01 C05 C19 C13 C14 C17 C18", std::string("encode-failed/") + be_name(s.cfg.be), "encode of " + std::to_string(len) + " bytes returned " + std::to_string(rc));
        if (rc < 0 && leaked(W, live0)) W.viol("C16 C13", "encode-error-leak", "failed encode retained blocks");
        thread_arena().release_all();
        return;
    }
    int k = s.cfg.k, m = s.cfg.m, n = k + m;
    std::vector<std::vector<u8>> fr(n);
    for (int i = 0; i < n; i++) {
        char *f = i < k ? ed[i] : ep[i - k];
        fr[i].assign((u8 *) f, (u8 *) f + flen);
        W.trace.addbuf("put.frag", f, flen);
    }
    if (n > 0 && flen >= ref::HDR) learn_bever(W, s, fr[0].data());
    if (n > 0 && flen >= ref::HDR && ref::ld32(fr[0].data() + ref::OFF_METACRC) == 0) W.probe("put.header-crc-zero");
    // --- oracles on what encode produced
    bool legacy = env_legacy(W);
    for (int i = 0; i < n && flen >= ref::HDR; i++) {
        const u8 *f = fr[i].data();
        ref::Fields F = ref::fields(f);
        const u8 *pl = f + ref::HDR;
        if (s.cfg.ct == ref::CT_CRC32 && (u64) F.size + ref::HDR <= flen) {
            u32 want = legacy ? ref::crc_legacy(pl, F.size) : ref::crc_std(pl, F.size);
            if (F.chksum0 == 0 || F.chksum0 == 0xffffffffu) W.probe("put.special-stored-crc");
            if (F.chksum0 != want) W.viol("C10 C15", legacy ? "encode/payload-crc-not-legacy" : "encode/payload-crc-wrong", "fragment " + std::to_string(i) + ": stored payload checksum differs from the CRC-32 model");
        }
        u32 wantm = legacy ? ref::crc_legacy(f, ref::META) : ref::crc_std(f, ref::META);
        if (ref::ld32(f + ref::OFF_METACRC) != wantm) W.viol("C10 C09 C15", legacy ? "encode/meta-crc-not-legacy" : "encode/meta-crc-wrong", "fragment " + std::to_string(i) + ": stored metadata checksum differs from the CRC-32 model");
        if (!ref::accept_consume(f)) W.viol("C09 C12", "encode/fresh-header-unacceptable", "fragment " + std::to_string(i));
        if (is_invalid_fragment(s.desc, i < k ? ed[i] : ep[i - k]) != 0)
            W.viol("C12 C10", "fresh-fragment-invalid", "fragment " + std::to_string(i) + " just encoded does not validate");
    }
    if (s.cfg.be == EC_BACKEND_FLAT_XOR_HD && flen >= ref::HDR) {
        const XorGolden *g = ref::xor_golden(k, m, s.cfg.hd);
        size_t bs = flen - ref::HDR;
        if (!g) W.viol("C05", "xor/shape-not-in-golden-table", "accepted flat-XOR shape has no golden equations");
        for (int j = 0; g && j < m; j++) {
            std::vector<u8> x(bs, 0);
            for (int i = 0; i < k; i++) if ((g->eq[j] >> i) & 1) for (size_t b = 0; b < bs; b++) x[b] ^= fr[i][ref::HDR + b];
            if (bytes_differ(x.data(), fr[k + j].data() + ref::HDR, bs)) {
                W.viol("C05", "xor/parity-equation", "parity " + std::to_string(j) + " of (" + std::to_string(k) + "," + std::to_string(m) + "," + std::to_string(s.cfg.hd) + ") is not the XOR its golden equation names");
                break;
            }
        }
    }
    if (bytes_differ(in, data.data(), len)) W.viol("C15", "encode/input-modified", "encode wrote to its input");
    if (op.has("scribble") && flen > 0) {
        // the fragments are the caller's until cleanup: a caller that damaged them in place (the usual way to fabricate a bad
        // fragment) still gets everything released
        Rng sr((u64) op["scribble"]["seed"].num()); int mode = op["scribble"]["mode"].in(0);
        for (int i = 0; i < n; i++) {
            char *f = i < k ? ed[i] : ep[i - k];
            if (mode != 2 && !sr.chance(1, 2)) continue;
            if (mode == 0) memset(f + ref::OFF_MAGIC, 0, 4);
            else if (mode == 1) for (u64 b = 0; b < std::min<u64>(flen, ref::HDR); b++) f[b] = (char) sr.below(256);
            else if (mode == 2) memset(f, 0, flen);
            else f[sr.below(flen)] ^= (char) (1 << sr.below(8));
        }
        W.fault("SCRIBBLE");
    }
    cur().api = "encode_cleanup";
    int crc = liberasurecode_encode_cleanup(s.desc, ed, ep);
    if (crc != 0) W.viol("C16 C13", "encode-cleanup-failed", "rc=" + std::to_string(crc));
    if (leaked(W, live0))
        W.viol("C16", "encode-cleanup-leak", "encode+encode_cleanup left " + std::to_string((long) own::live() - (long) live0) + " block(s)");
    // --- store
    bool same_shape = o.valid && o.flen == flen && o.dev.size() == (size_t) n;
    o.prev = same_shape ? o.dev : std::vector<std::vector<u8>>();
    o.valid = true; o.cfg = s.cfg; o.data = data; o.flen = flen; o.legacy = legacy; o.orig = fr; o.dev = fr;
    const Json &st = op["store"];
    for (size_t i = 0; i < st.size(); i++) {
        int dev = n ? (int) ((u64) st[i]["dev"].num() % (u64) n) : 0;
        Json one = Json::arr(); one.push(st[i]);
        apply_fx(W, o.dev[dev], one, &o, dev);
    }
    thread_arena().release_all();
}

static void judge_consume_errors(World &W, const char *api, int rc, const Delivered &D, int num, int k, u64 flen) {
    // C09 (b): an unacceptable header among the inputs of an otherwise well-formed call => exactly -EBADHEADER
    if (D.any_bad_consume && num >= k && flen >= ref::HDR) {
        if (rc != -ref::EBADHEADER)
            W.viol("C09", std::string(api) + "/bad-header-not-refused", std::string(api) + " was given a fragment whose header the reference rejects and returned " + std::to_string(rc) + " instead of -EBADHEADER");
        else W.probe("c09.consume.refused");
    }
}

static void op_get(World &W, const Json &op) {
    Slot &s = W.slots[(size_t) op["slot"].num() % World::NSLOT];
    Obj &o = W.objs[(size_t) op["obj"].num() % World::NOBJ];
    if (!s.live || !o.valid) return;
    if (op.has("env")) { if (op["env"].isnull()) set_env(W, false, ""); else set_env(W, true, op["env"].str()); W.fault("ENV"); }
    size_t slack = (size_t) op["slack"].in(0);
    if (slack) W.fault("SLOT_LARGER_THAN_FRAGMENT");
    Delivered D = deliver(W, o, s, op["dl"], op["fxall"], slack);
    int num = (int) D.ptrs.size();
    int force = op["force"].in(0);
    if (!D.sizes_sane) { W.probe("get.skipped-header-lies-about-sizes"); thread_arena().release_all(); return; }
    // the caller's output variables hold leftovers, not zeroes (every other operation; a zero-length object may legitimately
    // leave the buffer pointer alone, so those keep the NULL)
    bool prefill = (cur().op & 1) && o.data.size() > 0;
    char *const junk = (char *) (uintptr_t) 0x5a5a5a5a5a58ULL;
    char *out = prefill ? junk : nullptr; u64 outlen = prefill ? 0x1234567 : 0;
    size_t live0 = own::live();
    cur().api = "decode";
    arm_bfail(W, op);
    long inj0 = isal_injected_failures();
    char **frlist = (char **) thread_arena().place((const u8 *) D.ptrs.data(), D.ptrs.size() * sizeof(char *), Arena::RIGHT);   // the list itself is an input too
    int rc = liberasurecode_decode(s.desc, frlist, num, o.flen + slack, force, &out, &outlen);
    bool fired = disarm_bfail(W);
    if (isal_injected_failures() != inj0) { fired = true; W.fault("ISAL_INVERT_FAIL.fired"); }
    W.trace.add("get.rc", rc);
    bool same = s.cfg.same(o.cfg) && coded_backend(s.cfg.be);
    if (rc == 0 && prefill && out == junk) {
        W.viol("C01 C02 C13 C16 C19 C20", "decode/success-without-output", "decode returned 0 but left the caller's output pointer untouched");
        out = nullptr;
    }
    if (rc != 0 && out == junk) out = nullptr;
    bool exact = rc == 0 && out && outlen == o.data.size() && !bytes_differ(out, o.data.data(), outlen);
    if (rc == 0 && !out && o.data.size() == 0 && outlen == 0) exact = true;  // zero-length object: a NULL buffer is acceptable
    if (rc == 0) { W.trace.add("get.len", (i64) outlen); if (out) W.trace.addbuf("get.out", out, outlen); }
    int n = s.cfg.n();
    int er = n - __builtin_popcountll(D.pristine_mask);
    if (fired) {
        if (rc >= 0) W.viol("C17 C19", "decode-failure-swallowed", "backend decode failed, public rc=" + std::to_string(rc));
    } else if (same) {
        std::string reg = regime(s.cfg, er);
        std::string who = std::string(be_name(s.cfg.be)) + "/" + reg;
        if (D.all_pristine) {
            bool tol = within_tolerance(s.cfg, D.pristine_mask);
            if (tol) {
                W.probe("get.within-tolerance");
                if (rc != 0) W.viol("C01 C05 C19 C14 C17 C18", "decode-refused/" + who, "decode of a tolerated erasure set returned " + std::to_string(rc) + " (" + std::to_string(er) + " erasures)");
                else if (!exact) W.viol("C01 C05 C19 C02 C14 C17 C18", "decode-wrong-bytes/" + who, "decode returned success with different bytes/length (len " + std::to_string(outlen) + " vs " + std::to_string(o.data.size()) + ")");
            } else {
                W.probe("get.beyond-tolerance");
                if (rc == 0 && !exact) W.viol("C02 C19", "decode-wrong-bytes/" + who, "decode of an unrecoverable set (" + std::to_string(er) + " erasures) returned success with different bytes");
                if (rc > 0) W.viol("C02", "decode-positive-rc/" + who, "rc=" + std::to_string(rc));
            }
        } else {
            // with forced checks a non-host-order fragment may equally be excluded as invalid (C20), so the exact
            // bad-header code is demanded of decode only when the caller did not ask for that filtering
            if (!force) judge_consume_errors(W, "decode", rc, D, num, s.cfg.k, o.flen);
            else if (D.any_bad_consume && rc == 0 && !exact) W.viol("C09", "decode/bad-header-consumed", "forced-check decode consumed a fragment with an unacceptable header");
            if (!D.any_bad_consume && D.sizes_sane && s.cfg.ct == ref::CT_CRC32 && force && D.all_pristine_or_invalid) {
                // C20: every delivered fragment is either a pristine member of this stripe or fails validation
                bool tol = within_tolerance(s.cfg, D.usable_mask);
                W.probe("c20.judged");
                if (rc == 0 && !exact) W.viol("C20", "safety/invalid-fragment-changed-result/" + std::string(be_name(s.cfg.be)), "forced-check decode returned success with bytes that differ from the original");
                if (tol && rc != 0) W.viol("C20", "availability/valid-fragments-sufficient-but-refused/" + std::string(be_name(s.cfg.be)), "valid fragments alone are within tolerance but decode returned " + std::to_string(rc));
                if (!tol && rc == 0 && exact) W.probe("c20.beyond-but-exact");
            }
        }
    }
    if (rc == 0) {
        cur().api = "decode_cleanup";
        int c = liberasurecode_decode_cleanup(s.desc, out);
        if (c != 0) W.viol("C16 C13", "decode-cleanup-failed", "rc=" + std::to_string(c));
    } else if (out != nullptr && own::owns(out)) {
        W.viol("C16 C17 C02", "decode-error-returned-buffer", "decode failed but left an allocated buffer in *out_data");
    }
    if (leaked(W, live0))
        W.viol(rc == 0 ? "C16" : "C16 C17 C13", rc == 0 ? "decode-cleanup-leak" : "decode-error-leak", "decode (rc=" + std::to_string(rc) + ") left " + std::to_string((long) own::live() - (long) live0) + " block(s)");
    thread_arena().release_all();
}

static void op_repair(World &W, const Json &op) {
    Slot &s = W.slots[(size_t) op["slot"].num() % World::NSLOT];
    Obj &o = W.objs[(size_t) op["obj"].num() % World::NOBJ];
    if (!s.live || !o.valid) return;
    if (op.has("env")) { if (op["env"].isnull()) set_env(W, false, ""); else set_env(W, true, op["env"].str()); W.fault("ENV"); }
    else if (o.legacy != env_legacy(W) && !W.threaded) set_env(W, o.legacy, "1");  // hold the writer profile (C03 does not speak about changing it); never touch the environment while other threads run
    size_t slack = (size_t) op["slack"].in(0);
    if (slack) W.fault("SLOT_LARGER_THAN_FRAGMENT");
    Delivered D = deliver(W, o, s, op["dl"], op["fxall"], slack);
    int num = (int) D.ptrs.size();
    int dest = op["dest"].in();
    if (!D.sizes_sane) { W.probe("repair.skipped-header-lies-about-sizes"); thread_arena().release_all(); return; }
    int al = op["oal"].in(0);
    u8 *outb = nullptr;
    if (op["inplace"].in(0) && !slack) {
        // a caller that refreshes a fragment it holds: the destination is among the supplied fragments and the output
        // buffer is that very buffer
        for (size_t q = 0; q < D.devs.size() && !outb; q++) if (D.devs[q] == dest && D.bufs[q].size() == o.flen) {
            outb = thread_arena().place(D.bufs[q].data(), o.flen, al == 16 ? Arena::RIGHT : (al & 15), true);
            for (size_t z = 0; z < D.devs.size(); z++) if (D.ptrs[z] == D.ptrs[q] && z != q) D.ptrs[z] = (char *) outb;
            D.ptrs[q] = (char *) outb; W.fault("REPAIR.in-place");
        }
    }
    if (!outb) { outb = thread_arena().place(nullptr, o.flen + slack, al == 16 ? Arena::RIGHT : (al & 15), true); memset(outb, 0xEE, o.flen + slack); }
    size_t live0 = own::live();
    cur().api = "reconstruct_fragment";
    arm_bfail(W, op);
    long inj0 = isal_injected_failures();
    char **frlist = (char **) thread_arena().place((const u8 *) D.ptrs.data(), D.ptrs.size() * sizeof(char *), Arena::RIGHT);
    int rc = liberasurecode_reconstruct_fragment(s.desc, frlist, num, o.flen + slack, dest, (char *) outb);
    bool fired = disarm_bfail(W);
    if (isal_injected_failures() != inj0) { fired = true; W.fault("ISAL_INVERT_FAIL.fired"); }
    W.trace.add("repair.rc", rc);
    if (rc == 0) W.trace.addbuf("repair.out", outb, o.flen);
    bool same = s.cfg.same(o.cfg) && coded_backend(s.cfg.be);
    int n = s.cfg.n();
    int er = n - __builtin_popcountll(D.pristine_mask);
    bool inrange = dest >= 0 && dest < n;
    if (fired) {
        if (rc >= 0) W.viol("C17 C19", "reconstruct-failure-swallowed", "backend reconstruct failed, public rc=" + std::to_string(rc));
    } else if (!inrange) {
        if (rc >= 0) W.viol("C03 C13", "reconstruct/out-of-range-destination-accepted", "destination " + std::to_string(dest) + " rc=" + std::to_string(rc));
        else W.probe("repair.dest-out-of-range.refused");
    } else if (same) {
        std::string who = std::string(be_name(s.cfg.be)) + "/" + regime(s.cfg, er);
        bool env_same = (o.legacy == env_legacy(W));
        auto equal_orig = [&]() {
            const std::vector<u8> &want = o.orig[dest];
            if (env_same || ((D.pristine_mask >> dest) & 1)) return !bytes_differ(outb, want.data(), o.flen);
            // writer switch changed since the stripe was written: both CRC fields are re-derived, everything else is fixed
            std::vector<u8> a(outb, outb + o.flen), b = want;
            for (int off : {(int) ref::OFF_CHKSUM, (int) ref::OFF_METACRC}) { memset(&a[off], 0, 4); memset(&b[off], 0, 4); }
            return a == b;
        };
        if (D.all_pristine) {
            bool tol = within_tolerance(s.cfg, D.pristine_mask);
            bool have_dest = (D.pristine_mask >> dest) & 1;
            if (tol) {
                W.probe(have_dest ? "repair.dest-available" : "repair.dest-missing");
                if (rc != 0) W.viol("C03 C05 C19 C14 C17 C18", "reconstruct-refused/" + who, "reconstruct of index " + std::to_string(dest) + " within tolerance returned " + std::to_string(rc));
                else if (!equal_orig()) W.viol("C03 C05 C19 C02 C14 C17 C18", std::string(have_dest ? "reconstruct-available-changed/" : "reconstruct-wrong-bytes/") + who, "reconstructed fragment " + std::to_string(dest) + " differs from the one encode produced");
                else if (!env_same && s.cfg.ct == ref::CT_CRC32 && !have_dest) {
                    bool lg = env_legacy(W);
                    const u8 *pl = outb + ref::HDR; u32 sz = ref::ld32(outb + ref::OFF_SIZE);
                    u32 want = lg ? ref::crc_legacy(pl, sz) : ref::crc_std(pl, sz);
                    if (ref::ld32(outb + ref::OFF_CHKSUM) != want) W.viol("C10 C15", "reconstruct/payload-crc-flavour", "reconstructed fragment's payload CRC is not the flavour the switch selects");
                    u32 wm = lg ? ref::crc_legacy(outb, ref::META) : ref::crc_std(outb, ref::META);
                    if (ref::ld32(outb + ref::OFF_METACRC) != wm) W.viol("C10 C15", "reconstruct/meta-crc-flavour", "reconstructed fragment's metadata CRC is not the flavour the switch selects");
                }
                if (rc == 0 && !have_dest) {
                    // a fragment the instance just reconstructed validates as good (C12) and carries a right CRC (C10)
                    std::vector<u8> cp(outb, outb + o.flen);
                    char *p = (char *) thread_arena().place(cp.data(), cp.size(), 0);
                    if (is_invalid_fragment(s.desc, p) != 0) W.viol("C12 C10", "reconstructed-fragment-invalid", "fragment " + std::to_string(dest) + " just reconstructed does not validate");
                }
            } else {
                W.probe("repair.beyond-tolerance");
                if (rc == 0 && !equal_orig()) W.viol("C02 C19", "reconstruct-wrong-bytes/" + who, "reconstruct from an unrecoverable set returned success with a different fragment");
                if (rc > 0) W.viol("C02", "reconstruct-positive-rc/" + who, "rc=" + std::to_string(rc));
            }
        } else {
            judge_consume_errors(W, "reconstruct", rc, D, num, 0, o.flen);
        }
    } else if (coded_backend(s.cfg.be) && s.cfg.be == o.cfg.be && s.cfg.k == o.cfg.k && s.cfg.m == o.cfg.m && s.cfg.hd == o.cfg.hd &&
               D.all_pristine && !((D.pristine_mask >> dest) & 1) && within_tolerance(s.cfg, D.pristine_mask) && rc == 0 && o.flen >= ref::HDR) {
        // the stripe was written under another checksum type (checksums enabled or disabled later): the rebuilt fragment is
        // written by *this* instance, so it carries this instance's checksum type and, for CRC32, a right checksum (C10)
        W.probe("repair.other-checksum-type");
        const std::vector<u8> &want = o.orig[dest];
        bool lg = env_legacy(W);
        u32 sz = ref::ld32(outb + ref::OFF_SIZE);
        if (bytes_differ(outb + ref::HDR, want.data() + ref::HDR, o.flen - ref::HDR) || sz != ref::ld32(want.data() + ref::OFF_SIZE))
            W.viol("C10 C03", "reconstruct/other-ct/payload-differs", "rebuilt payload differs from the one encode produced");
        else {
            if (outb[ref::OFF_CT] != (u8) s.cfg.ct) W.viol("C10", "reconstruct/other-ct/checksum-type-not-the-instance's", "header says type " + std::to_string(outb[ref::OFF_CT]) + ", the rebuilding instance was created with " + std::to_string(s.cfg.ct));
            else if (s.cfg.ct == ref::CT_CRC32 && (u64) sz + ref::HDR <= o.flen) {
                u32 wc = lg ? ref::crc_legacy(outb + ref::HDR, sz) : ref::crc_std(outb + ref::HDR, sz);
                if (ref::ld32(outb + ref::OFF_CHKSUM) != wc) W.viol("C10", "reconstruct/other-ct/payload-crc-wrong", "rebuilt fragment's stored payload checksum differs from the CRC-32 model");
            }
            u32 wm = lg ? ref::crc_legacy(outb, ref::META) : ref::crc_std(outb, ref::META);
            if (ref::ld32(outb + ref::OFF_METACRC) != wm) W.viol("C10", "reconstruct/other-ct/meta-crc-wrong", "rebuilt fragment's metadata checksum differs from the CRC-32 model");
        }
    }
    if (leaked(W, live0))
        W.viol(rc == 0 ? "C16" : "C16 C17 C13", rc == 0 ? "reconstruct-leak" : "reconstruct-error-leak", "reconstruct (rc=" + std::to_string(rc) + ") left " + std::to_string((long) own::live() - (long) live0) + " block(s)");
    thread_arena().release_all();
}

static void op_plan(World &W, const Json &op) {
    Slot &s = W.slots[(size_t) op["slot"].num() % World::NSLOT];
    if (!s.live) return;
    int n = s.cfg.n(), k = s.cfg.k;
    if (n <= 0) return;
    std::vector<int> R, X;
    std::set<int> seen;
    for (int v : op["R"].intvec()) { int x = ((v % n) + n) % n; if (seen.insert(x).second) R.push_back(x); }
    for (int v : op["X"].intvec()) { int x = ((v % n) + n) % n; if (seen.insert(x).second) X.push_back(x); }
    if (R.empty()) return;
    std::vector<int> Rl = R, Xl = X;
    // optional: the same index named twice (in both lists, or twice in one); the union is what counts
    // (only an index of R repeated in X, the usage the project's own test relies on; never duplicates inside one list)
    for (int v : op["dupX"].intvec()) { int x = ((v % n) + n) % n; if (std::count(R.begin(), R.end(), x) && !std::count(Xl.begin() + (long) X.size(), Xl.end(), x)) { Xl.push_back(x); W.fault("PLAN.overlapping-lists"); } }
    // a caller that never de-duplicates: entries repeated until the list has the given length; the set named is unchanged
    if (op.has("pad")) {
        Rng pr((u64) op["pad"]["seed"].num(1));
        size_t lr = (size_t) op["pad"]["R"].in(0), lx = (size_t) op["pad"]["X"].in(0);
        bool front = op["pad"]["front"].in(0) != 0;   // repeats before the first occurrence of the last distinct index
        auto pad = [&](std::vector<int> &l, size_t want) {
            if (l.empty() || l.size() >= want) return;
            std::vector<int> base = l; int last = base.back();
            if (front && base.size() > 1) { l.pop_back(); while (l.size() + 1 < want) l.push_back(base[pr.below(base.size() - 1)]); l.push_back(last); }
            else while (l.size() < want) l.insert(l.begin() + (long) pr.below(l.size() + 1), base[pr.below(base.size())]);
        };
        pad(Rl, lr); pad(Xl, lx);
        W.fault("PLAN.repeated-entries");
    }
    Rl.push_back(-1); Xl.push_back(-1);
    int *Rp = (int *) thread_arena().place((u8 *) Rl.data(), Rl.size() * 4, Arena::RIGHT);
    int *Xp = (int *) thread_arena().place((u8 *) Xl.data(), Xl.size() * 4, Arena::RIGHT);
    std::vector<int> init(n + 1, 0x7e7e7e7e);
    int *Np = (int *) thread_arena().place((u8 *) init.data(), init.size() * 4, Arena::RIGHT, true);
    size_t live0 = own::live();
    cur().api = "fragments_needed";
    arm_bfail(W, op);
    int rc = liberasurecode_fragments_needed(s.desc, Rp, Xp, Np);
    bool fired = disarm_bfail(W);
    W.trace.add("plan.rc", rc);
    std::vector<int> ans; bool terminated = false;
    for (int i = 0; i <= n; i++) { if (Np[i] == -1) { terminated = true; break; } ans.push_back(Np[i]); }
    if (rc == 0) for (int v : ans) W.trace.add("plan.n", v);
    if (leaked(W, live0)) W.viol("C16 C17 C13", "fragments-needed-leak", "fragments_needed left " + std::to_string((long) own::live() - (long) live0) + " block(s)");
    if (fired) {
        if (rc >= 0) W.viol("C17", "fragments-needed-failure-swallowed", "backend fragments_needed failed, public rc=" + std::to_string(rc));
        thread_arena().release_all(); return;
    }
    if (!coded_backend(s.cfg.be)) { thread_arena().release_all(); return; }
    int tot = (int) (R.size() + X.size());
    bool tol = s.cfg.be == EC_BACKEND_FLAT_XOR_HD ? tot < s.cfg.hd : tot <= s.cfg.m;
    std::string who = std::string(be_name(s.cfg.be)) + (tol ? "/within" : "/beyond");
    std::string bad;
    if (rc == 0) {
        std::set<int> as;
        if (!terminated) bad = "unterminated-or-untouched-list";
        else {
            for (int v : ans) {
                if (v < 0 || v >= n) { bad = "index-out-of-range"; break; }
                if (!as.insert(v).second) { bad = "duplicate-index"; break; }
                if (seen.count(v)) { bad = std::count(R.begin(), R.end(), v) ? "contains-requested-index" : "contains-excluded-index"; break; }
            }
            if (bad.empty()) {
                if (s.cfg.be == EC_BACKEND_FLAT_XOR_HD) {
                    const XorGolden *g = ref::xor_golden(k, s.cfg.m, s.cfg.hd);
                    std::vector<u32> rows; for (int v : ans) rows.push_back(ref::xor_row(g, v));
                    for (int r : R) if (g && !ref::gf2_in_span(rows, ref::xor_row(g, r))) { bad = "insufficient-set"; break; }
                } else if ((int) ans.size() != k) bad = "not-exactly-k";
            }
        }
    }
    if (tol) {
        W.probe("plan.within");
        if (rc != 0) W.viol("C06 C19 C17", "refused/" + who, "fragments_needed within tolerance returned " + std::to_string(rc));
        else if (!bad.empty()) W.viol("C06 C19", bad + "/" + who, "answer violates the contract: " + bad);
    } else {
        W.probe("plan.beyond");
        if (rc > 0) W.viol("C06", "positive-rc/" + who, "rc=" + std::to_string(rc));
        if (rc == 0 && !bad.empty()) W.viol("C06 C19", bad + "/" + who, "beyond tolerance the call reported success with a wrong list: " + bad);
    }
    // behavioural confirmation: reconstruct every requested fragment from the answer alone
    Obj &o = W.objs[(size_t) op["obj"].num() % World::NOBJ];
    if (rc == 0 && bad.empty() && op["confirm"].in(0) && o.valid && o.cfg.same(s.cfg)) {
        if (o.legacy != env_legacy(W) && !W.threaded) set_env(W, o.legacy, "1");
        for (int r : R) {
            thread_arena().release_all();
            std::vector<char *> fr;
            for (int v : ans) fr.push_back((char *) thread_arena().place(o.orig[v].data(), o.flen, Arena::RIGHT));
            u8 *outb = thread_arena().place(nullptr, o.flen, 0, true);
            cur().api = "reconstruct_fragment(confirm)";
            int rr = liberasurecode_reconstruct_fragment(s.desc, fr.data(), (int) fr.size(), o.flen, r, (char *) outb);
            W.trace.add("plan.confirm.rc", rr);
            if (rr == 0) {
                W.probe("plan.confirmed");
                if (bytes_differ(outb, o.orig[r].data(), o.flen)) W.viol("C06 C19", "answer-reconstructs-wrong-fragment/" + who, "reconstructing " + std::to_string(r) + " from the returned set gives different bytes");
            } else {
                // reconstruct itself is only promised within the code's tolerance (C03): a refusal because the rest of
                // the stripe is "missing" beyond that is not held against the planner; sufficiency is the span test above
                u64 am = 0; for (int v : ans) am |= 1ULL << v;
                if (within_tolerance(s.cfg, am))
                    W.viol("C06 C19", "answer-not-usable/" + who, "reconstruct restricted to the returned set (erasures within tolerance) failed with " + std::to_string(rr));
                else W.probe("plan.confirm.refused-beyond-tolerance");
            }
        }
    }
    thread_arena().release_all();
}

static bool metadata_call_safe(const std::vector<u8> &b) {
    // get_fragment_metadata has no length argument: it must trust header.size when ct == CRC32.
    if (b.size() < ref::HDR) return false;
    if (!ref::accept_meta(b.data())) return true;
    ref::Fields f = ref::fields(b.data());
    // note the library reads the *raw* ct byte and the (possibly swapped) size
    if (f.ct == ref::CT_CRC32 || b[ref::OFF_CT] == ref::CT_CRC32) {
        u64 raw = ref::ld32(b.data() + ref::OFF_SIZE);
        if ((u64) f.size + ref::HDR > b.size() || raw + ref::HDR > b.size()) return ref::view(b.data()).swapped ? ((u64) f.size + ref::HDR <= b.size()) : false;
    }
    return true;
}

static void op_scrub(World &W, const Json &op) {
    Slot &s = W.slots[(size_t) op["slot"].num() % World::NSLOT];
    Obj &o = W.objs[(size_t) op["obj"].num() % World::NOBJ];
    if (!s.live || !o.valid || o.dev.empty()) return;
    int dev = (int) ((u64) op["dev"].num() % o.dev.size());
    std::vector<u8> b = o.dev[dev];
    apply_fx(W, b, op["fx"], &o, dev);
    if (!metadata_call_safe(b)) { W.probe("scrub.skipped-unsafe-size"); return; }
    int al = op["al"].in(16);
    char *p = (char *) thread_arena().place(b.data(), b.size(), al == 16 ? Arena::RIGHT : (al & 15));
    ref::InstView I = inst_view(W, s);
    bool acc = ref::accept_meta(b.data());
    fragment_metadata_t md; memset(&md, 0x01, sizeof md);   // the caller's struct holds leftovers, not zeroes
    cur().api = "get_fragment_metadata";
    int rc = liberasurecode_get_fragment_metadata(p, &md);
    W.trace.add("scrub.rc", rc);
    W.probe(acc ? "scrub.ref-accept" : "scrub.ref-reject");
    if (acc && rc != 0) W.viol("C09 C11", "metadata/acceptable-header-rejected", "reference accepts the header, get_fragment_metadata returned " + std::to_string(rc));
    if (!acc && rc == 0) W.viol("C09", "metadata/unacceptable-header-accepted", "reference rejects the header (magic/version/metadata CRC), get_fragment_metadata returned 0");
    if (!acc && rc != 0 && rc != -ref::EBADHEADER) W.viol("C09", "metadata/wrong-error-code", "rejected with " + std::to_string(rc) + ", not -EBADHEADER");
    bool swapped = ref::view(b.data()).swapped;
    ref::Fields F = ref::fields(b.data());
    if (acc && rc == 0 && !swapped && F.ct == ref::CT_CRC32) {
        bool mm = ref::payload_mismatch(b.data(), b.size());
        W.trace.add("scrub.mm", md.chksum_mismatch);
        if ((md.chksum_mismatch != 0) != mm)
            W.viol("C10", mm ? "metadata/mismatch-not-reported" : "metadata/false-mismatch", "payload CRC " + std::string(mm ? "differs from" : "matches") + " the stored value under the reference, library reports chksum_mismatch=" + std::to_string(md.chksum_mismatch));
        W.probe(mm ? "scrub.mismatch" : "scrub.match");
    }
    // C12: per-fragment validation verdict
    cur().api = "is_invalid_fragment";
    int inv = is_invalid_fragment(s.desc, p);
    W.trace.add("scrub.inv", inv);
    bool want = ref::invalid(I, b.data(), b.size());
    bool unjudged = (F.ct != ref::CT_CRC32 && b[ref::OFF_MISMATCH] != 0);  // stored flag on a non-CRC fragment: property is silent
    if (!unjudged) {
        if ((inv != 0) != want)
            W.viol("C12", want ? "validation/invalid-fragment-accepted" : "validation/valid-fragment-rejected",
                   std::string("reference says ") + (want ? "invalid" : "valid") + ", is_invalid_fragment returned " + std::to_string(inv));
        W.probe(want ? "scrub.ref-invalid" : "scrub.ref-valid");
        if (acc && !swapped && F.ct == ref::CT_CRC32 && ref::payload_mismatch(b.data(), b.size()) && inv == 0)
            W.viol("C10", "validation/mismatch-not-rejected", "payload checksum mismatches but the fragment validates");
    }
    // any non-zero verdict counts as "invalid": the property does not fix the value
    // C11: the opposite-endian twin of this fragment means the same
    if (op["twin"].in(0) && acc && !swapped) {
        std::vector<u8> t = b; to_foreign_endian(t); W.fault("FOREIGN_ENDIAN");
        char *q = (char *) thread_arena().place(t.data(), t.size(), al == 16 ? Arena::RIGHT : (al & 15));
        fragment_metadata_t mt; memset(&mt, 0x01, sizeof mt);
        cur().api = "get_fragment_metadata(twin)";
        int rt = liberasurecode_get_fragment_metadata(q, &mt);
        W.trace.add("twin.rc", rt);
        if (rt != rc) W.viol("C11", "twin/verdict-differs", "native rc=" + std::to_string(rc) + " twin rc=" + std::to_string(rt));
        else if (rc == 0) {
            std::string diff;
            if (mt.idx != md.idx) diff = "idx";
            else if (mt.size != md.size) diff = "size";
            else if (mt.frag_backend_metadata_size != md.frag_backend_metadata_size) diff = "backend-metadata-size";
            else if (mt.orig_data_size != md.orig_data_size) diff = "orig-data-size";
            else if (mt.chksum_type != md.chksum_type) diff = "chksum-type";
            else if (memcmp(mt.chksum, md.chksum, sizeof md.chksum)) diff = "chksum";
            else if (mt.backend_id != md.backend_id) diff = "backend-id";
            else if (mt.backend_version != md.backend_version) diff = "backend-version";
            else if ((mt.chksum_mismatch != 0) != (md.chksum_mismatch != 0)) diff = "payload-mismatch-flag";
            if (!diff.empty()) W.viol("C11", "twin/field-differs/" + diff, "field " + diff + " of the byte-swapped twin differs from the native fragment's");
            W.trace.add("twin.mm", mt.chksum_mismatch);
        }
        int hv_n = 0, hv_t = 0;
        if (&is_invalid_fragment_header) { hv_n = is_invalid_fragment_header((fragment_header_t *) p); hv_t = is_invalid_fragment_header((fragment_header_t *) q); }
        else W.probe("unreached.is_invalid_fragment_header-not-exported");
        if ((hv_n != 0) != (hv_t != 0)) W.viol("C11", "twin/header-validation-differs", "native " + std::to_string(hv_n) + " twin " + std::to_string(hv_t));
        W.probe("twin.compared");
    }
    thread_arena().release_all();
}

static void op_vsm(World &W, const Json &op) {
    Slot &s = W.slots[(size_t) op["slot"].num() % World::NSLOT];
    if (!s.live) return;
    ref::InstView I = inst_view(W, s);
    std::vector<char *> ptrs; bool anybad = false, judged = true;
    const Json &fr = op["fr"];
    for (size_t i = 0; i < fr.size(); i++) {
        Obj &o = W.objs[(size_t) fr[i]["obj"].num() % World::NOBJ];
        if (!o.valid || o.dev.empty()) continue;
        int dev = (int) ((u64) fr[i]["dev"].num() % o.dev.size());
        std::vector<u8> b = o.dev[dev];
        apply_fx(W, b, fr[i]["fx"], &o, dev);
        if (b.size() < ref::HDR) continue;
        if (b[ref::OFF_MISMATCH] > 1) judged = false;
        if (ref::stripe_bad(I, b.data())) anybad = true;
        ptrs.push_back((char *) thread_arena().place(b.data(), b.size(), Arena::RIGHT));
    }
    if (ptrs.empty()) { thread_arena().release_all(); return; }
    if (!s.bever_known && s.cfg.be != EC_BACKEND_NULL) { thread_arena().release_all(); return; }
    cur().api = "verify_stripe_metadata";
    char **frlist = (char **) thread_arena().place((const u8 *) ptrs.data(), ptrs.size() * sizeof(char *), Arena::RIGHT);
    int rc = liberasurecode_verify_stripe_metadata(s.desc, frlist, (int) ptrs.size());
    W.trace.add("vsm.rc", rc);
    if (judged) {
        W.probe(anybad ? "vsm.ref-bad" : "vsm.ref-good");
        if (anybad && rc >= 0) W.viol("C12", "stripe/bad-fragment-accepted", "a fragment fails the index/backend-id/backend-version/mismatch-flag test, verify_stripe_metadata returned " + std::to_string(rc));
        if (!anybad && rc != 0) W.viol("C12", "stripe/good-stripe-rejected", "no fragment fails the stripe tests, verify_stripe_metadata returned " + std::to_string(rc));
    }
    thread_arena().release_all();
}

void exec_op_misc(World &W, const Json &op, const std::string &kind);  // history.cc

void exec_op(World &W, const Json &op, int index) {
    cur().op = index;
    cur().kind = op["op"].str();
    cur().api = "";
    if (W.announce) { printf("AT op=%d kind=%s\n", index, cur().kind.c_str()); fflush(stdout); }
    W.steps++;
    W.trace.adds("op", cur().kind);
    const std::string &k = cur().kind;
    // errno is whatever the application's last failed call left there: never an input of the library
    { static const int ev[] = {0, ENOMEM, EINTR, EAGAIN, EINVAL, ERANGE, ENOENT, 0, EBADF}; errno = ev[((unsigned) index * 7u + (unsigned) W.steps) % 9u]; }
    if (k == "CREATE") op_create(W, op);
    else if (k == "DESTROY") op_destroy(W, op);
    else if (k == "PUT") op_put(W, op);
    else if (k == "GET") op_get(W, op);
    else if (k == "REPAIR") op_repair(W, op);
    else if (k == "PLAN") op_plan(W, op);
    else if (k == "SCRUB") op_scrub(W, op);
    else if (k == "VSM") op_vsm(W, op);
    else if (k == "SIGNAL") sched_signal(op["e"].in(0));
    else if (k == "WAIT") sched_wait(op["e"].in(0));
    else if (k == "ENV" && op.has("name")) {
        // some other variable of the process environment (e.g. one whose name merely starts with the switch's name): never an input
        if (!W.threaded) { if (op["val"].isnull()) unsetenv(op["name"].str().c_str()); else { setenv(op["name"].str().c_str(), op["val"].str().c_str(), 1); W.other_env.insert(op["name"].str()); } W.fault("ENV.other-variable"); }
    }
    else if (k == "ENV") { if (op["val"].isnull()) set_env(W, false, ""); else set_env(W, true, op["val"].str()); W.fault("ENV"); }
    else exec_op_misc(W, op, k);
    if (!W.threaded && seq_locks_held() != 0) {
        W.viol("C13 C14 C15 C16 C17 C18", "lock/held-after-return", "a library lock is still held after the public call returned (the next create or destroy would block forever)");
        seq_locks_reset();
    }
}

Json run_plan(const Json &plan, bool verbose, std::vector<std::string> *log) {
    extern u64 g_tsan_reports;
    u64 tsan0 = g_tsan_reports;
    World W;
    W.announce = announce_ops;
    if (verbose) W.trace.log = log;
    world_begin(W, plan);
    if (plan.has("threads")) run_threaded(W, plan);
    else {
        const Json &ops = plan["ops"];
        for (size_t i = 0; i < ops.size(); i++) exec_op(W, ops[i], (int) i);
    }
    world_end(W);
    Json r = Json::obj();
    r.set("hash", hex64(W.trace.h));
    r.set("steps", (i64) W.steps);
    Json vs = Json::arr();
    for (auto &v : W.viols) { Json j = Json::obj(); j.set("prop", v.prop).set("sig", v.sig).set("detail", v.detail).set("op", v.op); vs.push(j); }
    r.set("viol", vs);
    Json f = Json::obj(); for (auto &kv : W.faults) f.set(kv.first, (i64) kv.second); r.set("faults", f);
    Json p = Json::obj(); for (auto &kv : W.probes) p.set(kv.first, (i64) kv.second); r.set("probes", p);
    r.set("syslog", (i64) g_syslog_calls);
    r.set("tsan", (i64) (g_tsan_reports - tsan0));
    if (plan.has("threads")) {
        r.set("yields", (i64) W.sched_yields).set("switches", (i64) W.sched_switches);
        r.set("decisions", Json::ints(W.sched_decisions));
        r.set("sh", hex64(fnv1a(W.sched_decisions.data(), W.sched_decisions.size() * sizeof(int))));
    }
    return r;
}
