// ecsim entry points:
//   ecsim batch <prop> <tier> <base_seed> <start> <step> <count> <deadline_s> <nsamples>
//   ecsim gen   <prop> <tier> <base_seed> <index>
//   ecsim exec  <planfile> [-v]
// Worker protocol (batch): "BEGIN <index>" before a run, "END <index> <json>" after it, both flushed;
// a worker that dies is attributed to its last BEGIN by the driver.
#include "sim.h"
#include <signal.h>
#include <time.h>
#include <unistd.h>
#include <fstream>
#include <sstream>

#if defined(__SANITIZE_ADDRESS__)
extern "C" void __sanitizer_set_death_callback(void (*cb)(void));
// classify sanitizer hits by exit code; leak checking is done by the ownership accounting, not at exit
extern "C" __attribute__((used, visibility("default"))) const char *__asan_default_options() { return "exitcode=77:detect_leaks=0:detect_odr_violation=0"; }
#endif

// ThreadSanitizer report hook (tsan flavour): reports are counted per run; their text goes to stderr
u64 g_tsan_reports = 0;
#ifdef VERIF_TSAN
extern "C" __attribute__((visibility("default"))) void __tsan_on_report(void *) { g_tsan_reports++; }
#endif

static void died_note() {
    char b[256];
    Cur &c = cur();
    int n = snprintf(b, sizeof b, "\nDIED op=%d kind=%s api=%s\n", c.op, c.kind.empty() ? "?" : c.kind.c_str(), c.api.empty() ? "?" : c.api.c_str());
    if (write(1, b, (size_t) n) < 0) {}
}
static void on_fatal(int sig) {
    died_note();
    char b[64]; int n = snprintf(b, sizeof b, "SIGNAL %d\n", sig);
    if (write(1, b, (size_t) n) < 0) {}
    _exit(70);
}

void canary_init();
static double now_s() { struct timespec t; clock_gettime(CLOCK_MONOTONIC, &t); return t.tv_sec + t.tv_nsec * 1e-9; }

static std::string slurp(const char *p) { std::ifstream f(p); std::stringstream s; s << f.rdbuf(); return s.str(); }

int main(int argc, char **argv) {
    setvbuf(stdout, nullptr, _IOLBF, 0);
#if defined(__SANITIZE_ADDRESS__)
    __sanitizer_set_death_callback(died_note);
#else
    signal(SIGSEGV, on_fatal); signal(SIGBUS, on_fatal); signal(SIGFPE, on_fatal); signal(SIGABRT, on_fatal); signal(SIGILL, on_fatal);
#endif
    (void) on_fatal;
    if (argc < 2) { fprintf(stderr, "usage: ecsim batch|gen|exec ...\n"); return 64; }
    std::string cmd = argv[1];
    engine_global_init();
    canary_init();
    if (cmd == "gen" && argc >= 6) {
        Json p = gen_plan(argv[2], argv[3], strtoull(argv[4], 0, 10), strtoull(argv[5], 0, 10));
        printf("%s\n", p.dump().c_str());
        return 0;
    }
    if (cmd == "exec" && argc >= 3) {
        Json plan = Json::parse(slurp(argv[2]));
        if (plan.has("plan")) plan = plan["plan"];  // replay files wrap the plan
        bool v = argc > 3 && !strcmp(argv[3], "-v");
        announce_ops = true;
        std::vector<std::string> log;
        printf("BEGIN %lld\n", (long long) plan["index"].num());
        fflush(stdout);
        Json r = run_plan(plan, v, &log);
        if (v) for (auto &l : log) printf("EV %s\n", l.c_str());
        printf("END %lld %s\n", (long long) plan["index"].num(), r.dump().c_str());
        return 0;
    }
    if (cmd == "batch" && argc >= 10) {
        std::string prop = argv[2], tier = argv[3];
        u64 base = strtoull(argv[4], 0, 10), start = strtoull(argv[5], 0, 10), step = strtoull(argv[6], 0, 10), count = strtoull(argv[7], 0, 10);
        double deadline = atof(argv[8]); int nsamples = atoi(argv[9]);
        double t0 = now_s();   // the wall clock only decides when to stop, never what a run does
        std::map<std::string, u64> faults, probes;
        u64 done = 0, steps = 0, nontrivial = 0;
        // counters are emitted as deltas every 256 runs, so a worker that dies later loses little
        auto flush_stats = [&]() {
            Json st = Json::obj();
            Json f = Json::obj(); for (auto &kv : faults) f.set(kv.first, (i64) kv.second);
            Json p = Json::obj(); for (auto &kv : probes) p.set(kv.first, (i64) kv.second);
            st.set("steps", (i64) steps).set("faults", f).set("probes", p);
            printf("STATS %s\n", st.dump().c_str());
            fflush(stdout);
            faults.clear(); probes.clear(); steps = 0;
        };
        for (u64 i = 0; i < count; i++) {
            u64 idx = start + i * step;
            if ((i & 7) == 0 && now_s() - t0 > deadline) break;
            Json plan = gen_plan(prop, tier, base, idx);
            printf("BEGIN %llu\n", (unsigned long long) idx);
            fflush(stdout);
            Json r = run_plan(plan, false, nullptr);
            std::string pd = plan["ops"].dump() + plan["threads"].dump();
            bool nt = plan_nontrivial(plan);
            Json line = Json::obj();
            line.set("hash", r["hash"]).set("ph", hex64(fnv1a_str(pd))).set("nt", nt ? 1 : 0);
            if (r["viol"].size()) line.set("viol", r["viol"]);
            if (plan.has("cells")) line.set("cells", plan["cells"]);
            if (r.has("sh")) line.set("sh", r["sh"]).set("sw", r["switches"]);
            if (r["tsan"].num() > 0) line.set("tsan", r["tsan"]);
            if ((int) i < nsamples) line.set("sample", plan);
            printf("END %llu %s\n", (unsigned long long) idx, line.dump().c_str());
            fflush(stdout);
            for (auto &kv : r["faults"].o) faults[kv.first] += (u64) kv.second.num();
            for (auto &kv : r["probes"].o) probes[kv.first] += (u64) kv.second.num();
            steps += (u64) r["steps"].num(); done++; nontrivial += nt;
            if ((done & 255) == 0) flush_stats();
        }
        flush_stats();
        printf("DONE %llu\n", (unsigned long long) done);
        return 0;
    }
    fprintf(stderr, "bad arguments\n");
    return 64;
}
