// ecsim: deterministic simulation harness around the real liberasurecode (see /verif/DESIGN.md)
#pragma once
#include "util.h"
#include "ref.h"
#include "arena.h"
#include <map>
#include <set>
#include <string>
#include <vector>

extern "C" {
#include "erasurecode.h"
#include "erasurecode_backend.h"
}
#undef str
#undef FN_NAME
#undef INIT
#undef EXIT
#undef ENCODE
#undef DECODE
#undef FRAGSNEEDED
#undef RECONSTRUCT
#undef ELEMENTSIZE
#undef ISCOMPATIBLEWITH
#undef GETMETADATASIZE
#undef GETENCODEOFFSET

// ---- accounting (wrap.cc)
namespace own {
size_t live(); size_t live_bytes(); u64 allocs(); u64 frees(); bool owns(void *p);
std::vector<std::pair<void *, size_t>> snapshot(); void forget_all();
}
extern u64 g_syslog_calls;

// ---- sequential lock book-keeping (wrap.cc)
void seq_locks_enable(bool on); int seq_locks_held(); void seq_locks_reset();

// ---- scheduler (sched.cc)
bool sched_active();
int sched_lock(void *l, int exclusive);
void sched_signal(int e);
void sched_wait(int e);
int sched_trylock(void *l, int exclusive);
int sched_unlock(void *l);

// ---- configuration / world
struct Cfg {
    int be = 0, k = 0, m = 0, hd = 0, w = 0, ct = 1;
    bool same(const Cfg &o) const { return be == o.be && k == o.k && m == o.m && hd == o.hd && ct == o.ct; }
    int n() const { return k + m; }
    Json json() const { Json j = Json::obj(); j.set("be", be).set("k", k).set("m", m).set("hd", hd).set("w", w).set("ct", ct); return j; }
};
const char *be_name(int be);
static inline bool be_is_isal(int be) { return be == EC_BACKEND_ISA_L_RS_VAND || be == EC_BACKEND_ISA_L_RS_CAUCHY; }

struct Slot {
    bool live = false;
    int desc = -1;
    Cfg cfg;
    u32 bever = 0; bool bever_known = false;
};
struct Obj {
    bool valid = false;
    Cfg cfg;
    std::vector<u8> data;
    u64 flen = 0;
    bool legacy = false;                 // writer profile: legacy CRC switch was on
    std::vector<std::vector<u8>> orig;   // fragments exactly as encode produced them
    std::vector<std::vector<u8>> dev;    // what the simulated devices hold now
    std::vector<std::vector<u8>> prev;   // previous version's device contents (for STALE / TORN)
};

Arena &thread_arena();
// what the calling OS thread is executing right now (for violation signatures and death notes)
struct Cur { int op = -1; std::string kind, api; int tid = 0; };
Cur &cur();

struct Violation { std::string prop, sig, detail; int op; };

struct BFail { int bop = -1; int mode = 0; int rc = -1; int fired = 0; };  // armed backend-op failure
struct DlFail { int sym_nth = 0; int open = 0; int fired = 0; };   // armed loader failure: n-th dlsym / dlopen of the library from now returns NULL
extern thread_local DlFail g_dlfail;
enum { BOP_INIT = 0, BOP_ENCODE, BOP_DECODE, BOP_RECONSTRUCT, BOP_FRAGSNEEDED };

struct World {
    enum { NSLOT = 20, NOBJ = 40 };
    std::string prop;            // property being decided by this run
    std::string tier;
    Slot slots[NSLOT];
    Obj objs[NOBJ];
    Trace trace;
    std::vector<Violation> viols;
    std::map<std::string, u64> faults, probes;
    std::string env_val; bool env_set = false;
    u64 steps = 0;
    u32 running_version = 0;
    size_t baseline_live = 0;
    std::set<int> dead_descs;    // destroyed and not (yet) reissued
    std::set<int> live_descs;
    bool threaded = false;
    u64 sched_yields = 0, sched_switches = 0; std::vector<int> sched_decisions;
    bool announce = false;       // exec mode: print the op about to run, so a death can be attributed even without a callback

    bool judging(const char *props) const { return strstr(props, prop.c_str()) != nullptr; }
    void viol(const char *props, const std::string &sig, const std::string &detail);
    void fault(const std::string &k) { faults[k]++; }
    std::set<std::string> other_env;   // other environment variables a plan set (removed at the end of the run)
    long orphan_blocks = 0;   // blocks of instances deliberately left registered (ORPHAN): the application's leak, not the library's
    void probe(const std::string &k) { probes[k]++; }
};

// per-call leak judgement (L2/L3) needs a quiescent allocator: other threads allocate concurrently in threaded runs,
// where only the end-of-run balance (L1) is judged
static inline bool leaked(const World &W, size_t live0) { return !W.threaded && own::live() != live0; }

// engine.cc
void engine_global_init();
Json run_plan(const Json &plan, bool verbose, std::vector<std::string> *log);
void exec_op(World &W, const Json &op, int index);
void world_begin(World &W, const Json &plan);
void world_end(World &W);
ref::InstView inst_view(World &W, const Slot &s);
extern thread_local BFail g_bfail;
extern bool announce_ops;
extern World *g_world;
void set_env(World &W, bool set, const std::string &v);

// gen.cc
Json gen_plan(const std::string &prop, const std::string &tier, u64 base_seed, u64 index);
bool plan_nontrivial(const Json &plan);

// threads (sched.cc)
void run_threaded(World &W, const Json &plan);
