// PRNG, hashing and a tiny JSON value used for plans / replay files / results.
#pragma once
#include <cstdint>
#include <cstdio>
#include <cstdlib>
#include <cstring>
#include <string>
#include <vector>
#include <utility>
#include <stdexcept>

typedef uint8_t u8;
typedef uint32_t u32;
typedef uint64_t u64;
typedef int64_t i64;

static inline u64 splitmix64(u64 &x) {
    u64 z = (x += 0x9e3779b97f4a7c15ULL);
    z = (z ^ (z >> 30)) * 0xbf58476d1ce4e5b9ULL;
    z = (z ^ (z >> 27)) * 0x94d049bb133111ebULL;
    return z ^ (z >> 31);
}
static inline u64 fnv1a(const void *p, size_t n, u64 h = 0xcbf29ce484222325ULL) {
    const u8 *b = (const u8 *) p;
    for (size_t i = 0; i < n; i++) { h ^= b[i]; h *= 0x100000001b3ULL; }
    return h;
}
static inline u64 fnv1a_str(const std::string &s, u64 h = 0xcbf29ce484222325ULL) { return fnv1a(s.data(), s.size(), h); }
static inline u64 mix_seed(u64 base, const std::string &name, u64 idx) {
    u64 x = base ^ (fnv1a_str(name) * 0x9e3779b97f4a7c15ULL) ^ (idx * 0xd1342543de82ef95ULL);
    splitmix64(x); return splitmix64(x);
}

// xoshiro256**
struct Rng {
    u64 s[4];
    Rng() { seed(1); }
    explicit Rng(u64 sd) { seed(sd); }
    Rng(u64 run_seed, const char *stream) { seed(mix_seed(run_seed, stream, 0)); }
    void seed(u64 sd) { for (int i = 0; i < 4; i++) s[i] = splitmix64(sd); }
    static inline u64 rotl(u64 x, int k) { return (x << k) | (x >> (64 - k)); }
    u64 next() {
        u64 r = rotl(s[1] * 5, 7) * 9, t = s[1] << 17;
        s[2] ^= s[0]; s[3] ^= s[1]; s[1] ^= s[2]; s[0] ^= s[3]; s[2] ^= t; s[3] = rotl(s[3], 45);
        return r;
    }
    u64 below(u64 n) { return n ? next() % n : 0; }
    i64 range(i64 lo, i64 hi) { return lo + (i64) below((u64) (hi - lo + 1)); }  // inclusive
    bool chance(unsigned num, unsigned den) { return below(den) < num; }
    template <class T> const T &pick(const std::vector<T> &v) { return v[below(v.size())]; }
    template <class T> void shuffle(std::vector<T> &v) {
        for (size_t i = v.size(); i > 1; i--) std::swap(v[i - 1], v[below(i)]);
    }
};

// rolling hash identifying one execution; never fed pointers, clocks or PRNG draws from logging
struct Trace {
    u64 h = 0xcbf29ce484222325ULL;
    u64 n = 0;
    std::vector<std::string> *log = nullptr;  // verbose event log (replay -v)
    void add(const char *tag, i64 v) {
        h = fnv1a(tag, strlen(tag), h); h = fnv1a(&v, sizeof v, h); n++;
        if (log) { char b[160]; snprintf(b, sizeof b, "%s=%lld", tag, (long long) v); log->push_back(b); }
    }
    void addbuf(const char *tag, const void *p, size_t len) {
        u64 d = fnv1a(p, len); add(tag, (i64) d);
    }
    void adds(const char *tag, const std::string &s) { add(tag, (i64) fnv1a_str(s)); }
};

// ---------------------------------------------------------------- JSON (ints, strings, bools, arrays, objects)
struct Json {
    enum T { NUL, BOOL, INT, STR, ARR, OBJ } t = NUL;
    i64 i = 0;
    std::string s;
    std::vector<Json> a;
    std::vector<std::pair<std::string, Json>> o;
    Json() {}
    Json(i64 v) : t(INT), i(v) {}
    Json(int v) : t(INT), i(v) {}
    Json(unsigned v) : t(INT), i(v) {}
    Json(u64 v) : t(INT), i((i64) v) {}
    Json(bool v) : t(BOOL), i(v) {}
    Json(const char *v) : t(STR), s(v) {}
    Json(const std::string &v) : t(STR), s(v) {}
    static Json arr() { Json j; j.t = ARR; return j; }
    static Json obj() { Json j; j.t = OBJ; return j; }
    static Json ints(const std::vector<int> &v) { Json j = arr(); for (int x : v) j.a.push_back(Json(x)); return j; }
    bool isnull() const { return t == NUL; }
    Json &set(const std::string &k, const Json &v) {
        if (t == NUL) t = OBJ;
        for (auto &kv : o) if (kv.first == k) { kv.second = v; return *this; }
        o.emplace_back(k, v); return *this;
    }
    void erase(const std::string &k) { for (size_t x = 0; x < o.size(); x++) if (o[x].first == k) { o.erase(o.begin() + x); return; } }
    Json &push(const Json &v) { if (t == NUL) t = ARR; a.push_back(v); return *this; }
    const Json &operator[](const char *k) const {
        static const Json nul;
        for (auto &kv : o) if (kv.first == k) return kv.second;
        return nul;
    }
    Json *find(const char *k) { for (auto &kv : o) if (kv.first == k) return &kv.second; return nullptr; }
    bool has(const char *k) const { for (auto &kv : o) if (kv.first == k) return true; return false; }
    const Json &operator[](size_t x) const { static const Json nul; return x < a.size() ? a[x] : nul; }
    size_t size() const { return t == ARR ? a.size() : t == OBJ ? o.size() : 0; }
    i64 num(i64 d = 0) const { return (t == INT || t == BOOL) ? i : d; }
    int in(int d = 0) const { return (int) num(d); }
    const std::string &str() const { return s; }
    std::vector<int> intvec() const { std::vector<int> v; for (auto &x : a) v.push_back(x.in()); return v; }

    void dump(std::string &out) const {
        switch (t) {
        case NUL: out += "null"; break;
        case BOOL: out += i ? "true" : "false"; break;
        case INT: out += std::to_string(i); break;
        case STR: dumpstr(s, out); break;
        case ARR:
            out += '[';
            for (size_t x = 0; x < a.size(); x++) { if (x) out += ','; a[x].dump(out); }
            out += ']'; break;
        case OBJ:
            out += '{';
            for (size_t x = 0; x < o.size(); x++) { if (x) out += ','; dumpstr(o[x].first, out); out += ':'; o[x].second.dump(out); }
            out += '}'; break;
        }
    }
    std::string dump() const { std::string r; dump(r); return r; }
    static void dumpstr(const std::string &s, std::string &out) {
        out += '"';
        for (unsigned char c : s) {
            if (c == '"' || c == '\\') { out += '\\'; out += (char) c; }
            else if (c == '\n') out += "\\n";
            else if (c < 0x20) { char b[8]; snprintf(b, sizeof b, "\\u%04x", c); out += b; }
            else out += (char) c;
        }
        out += '"';
    }
    // parser
    static Json parse(const std::string &txt) { size_t p = 0; Json j = parse_v(txt, p); return j; }
    static void ws(const std::string &s, size_t &p) { while (p < s.size() && (s[p] == ' ' || s[p] == '\n' || s[p] == '\t' || s[p] == '\r')) p++; }
    static Json parse_v(const std::string &s, size_t &p) {
        ws(s, p);
        if (p >= s.size()) throw std::runtime_error("json: eof");
        char c = s[p];
        if (c == '{') {
            Json j = obj(); p++; ws(s, p);
            if (s[p] == '}') { p++; return j; }
            for (;;) {
                ws(s, p); Json k = parse_v(s, p); ws(s, p);
                if (s[p] != ':') throw std::runtime_error("json: ':'");
                p++; Json v = parse_v(s, p); j.o.emplace_back(k.s, v); ws(s, p);
                if (s[p] == ',') { p++; continue; }
                if (s[p] == '}') { p++; return j; }
                throw std::runtime_error("json: obj");
            }
        }
        if (c == '[') {
            Json j = arr(); p++; ws(s, p);
            if (s[p] == ']') { p++; return j; }
            for (;;) {
                j.a.push_back(parse_v(s, p)); ws(s, p);
                if (s[p] == ',') { p++; continue; }
                if (s[p] == ']') { p++; return j; }
                throw std::runtime_error("json: arr");
            }
        }
        if (c == '"') {
            Json j; j.t = STR; p++;
            while (p < s.size() && s[p] != '"') {
                if (s[p] == '\\') {
                    p++;
                    char e = s[p];
                    if (e == 'n') j.s += '\n';
                    else if (e == 't') j.s += '\t';
                    else if (e == 'u') { j.s += (char) strtol(s.substr(p + 1, 4).c_str(), nullptr, 16); p += 4; }
                    else j.s += e;
                    p++;
                } else j.s += s[p++];
            }
            p++; return j;
        }
        if (!s.compare(p, 4, "null")) { p += 4; return Json(); }
        if (!s.compare(p, 4, "true")) { p += 4; return Json(true); }
        if (!s.compare(p, 5, "false")) { p += 5; return Json(false); }
        size_t q = p;
        if (s[q] == '-') q++;
        while (q < s.size() && ((s[q] >= '0' && s[q] <= '9') || s[q] == '.' || s[q] == 'e' || s[q] == 'E' || s[q] == '+' || s[q] == '-')) q++;
        if (q == p) throw std::runtime_error("json: value at " + std::to_string(p));
        Json j((i64) strtoll(s.substr(p, q - p).c_str(), nullptr, 10)); p = q; return j;
    }
};

static inline std::string hex64(u64 v) { char b[20]; snprintf(b, sizeof b, "%016llx", (unsigned long long) v); return b; }
