// Plan generation: a pure function (property, tier, base seed, run index) -> plan (JSON).
// Every operation carries its own arguments and its own attached faults, so any sub-sequence is still a plan.
#include "sim.h"
#include <algorithm>

static const int BE_RS = EC_BACKEND_LIBERASURECODE_RS_VAND, BE_XOR = EC_BACKEND_FLAT_XOR_HD, BE_NULL = EC_BACKEND_NULL,
                 BE_IV = EC_BACKEND_ISA_L_RS_VAND, BE_IC = EC_BACKEND_ISA_L_RS_CAUCHY;

struct G {
    Rng world, plan, data, faults;
    std::string prop, tier;
    u64 index;
    bool thorough;
    Json ops = Json::arr();
    Json cells = Json::arr();   // finite-space cells this run covers (for the enumeration evidence)
    G(u64 rs, const std::string &p, const std::string &t, u64 idx)
        : world(rs, "world"), plan(rs, "plan"), data(rs, "data"), faults(rs, "faults"), prop(p), tier(t), index(idx), thorough(t == "thorough") {}
};

static Json mk(const char *op) { Json j = Json::obj(); j.set("op", op); return j; }

static Cfg rs_shape(Rng &r, int be, bool allow_m0 = false) {
    Cfg c; c.be = be; c.hd = 0;
    unsigned x = (unsigned) r.below(100);
    if (allow_m0 && r.chance(1, 30)) { c.k = (int) r.range(1, 32); c.m = 0; c.hd = 0; return c; }   // no parity at all: tolerance 0
    if (x < 22) { c.k = (int) r.range(1, 31); c.m = 32 - c.k; }                       // k+m = 32 (bitmap edge)
    else if (x < 32) { c.k = 1; c.m = (int) r.range(1, 31); }
    else if (x < 42) { c.m = 1; c.k = (int) r.range(1, 31); }
    else if (x < 75) { c.k = (int) r.range(1, 8); c.m = (int) r.range(1, 4); }
    else { c.k = (int) r.range(1, 31); c.m = (int) r.range(1, 32 - c.k); }
    c.hd = c.m;
    return c;
}
static Cfg xor_shape_index(int t) {
    const XorGolden &g = XOR_GOLDEN[((t % XOR_GOLDEN_N) + XOR_GOLDEN_N) % XOR_GOLDEN_N];
    Cfg c; c.be = BE_XOR; c.k = g.k; c.m = g.m; c.hd = g.hd; return c;
}
static Cfg any_coded_shape(Rng &r, bool isal_only = false, bool no_isal = false, bool allow_m0 = false) {
    unsigned x = (unsigned) r.below(100);
    if (isal_only) return rs_shape(r, r.chance(1, 2) ? BE_IV : BE_IC, allow_m0);
    if (no_isal) return x < 55 ? rs_shape(r, BE_RS, allow_m0) : xor_shape_index((int) r.below(XOR_GOLDEN_N));
    if (x < 40) return rs_shape(r, BE_RS, allow_m0);
    if (x < 75) return xor_shape_index((int) r.below(XOR_GOLDEN_N));
    return rs_shape(r, x < 88 ? BE_IV : BE_IC, allow_m0);
}
static int word_bytes(const Cfg &c) { return c.be == BE_RS ? 2 : c.be == BE_XOR ? 4 : be_is_isal(c.be) ? 1 : 4; }

static u64 pick_len(G &g, const Cfg &c) {
    Rng &r = g.data;
    u64 unit = (u64) c.k * word_bytes(c);
    unsigned x = (unsigned) r.below(100);
    if (x < 4) return 0;
    if (x < 8) return 1;
    if (x < 16) return unit * r.range(1, 6) + (u64) r.range(-1, 1);
    if (x < 24) return unit * r.range(1, 40);
    if (x < 30) return 16 * c.k * r.range(1, 8) + r.range(-1, 1) * (i64) r.chance(1, 2);
    if (x < 90) return (u64) r.range(2, 4096);
    if (x < 98) return (u64) r.range(4097, g.thorough ? 65536 : 20000);
    if (!g.thorough && r.chance(1, 2)) return (u64) r.range(4097, 40000);
    return (u64) r.range(65537, 1 << 20);   // rare in the quick tier (~0.5 % of objects), 2 % in thorough
}

static Json create_op(int slot, const Cfg &c, int expect = 1) {
    Json j = mk("CREATE");
    j.set("slot", slot).set("be", c.be).set("k", c.k).set("m", c.m).set("hd", c.hd).set("w", c.w).set("ct", c.ct);
    if (expect >= 0) j.set("expect", expect);
    return j;
}
static Json put_op(G &g, int obj, int slot, const Cfg &c) {
    Json j = mk("PUT");
    j.set("obj", obj).set("slot", slot).set("len", (i64) pick_len(g, c));
    j.set("pat", g.data.chance(3, 4) ? 0 : (int) g.data.range(1, 4)).set("dseed", (i64) (g.data.next() >> 16));
    if (g.data.chance(1, 30)) j.set("pat", g.data.chance(1, 2) ? 8 : 9);   // data that looks like a fragment (magic at the header's offset / a whole header) in every block
    j.set("al", g.data.chance(2, 3) ? 16 : (int) g.data.below(16));
    return j;
}
// the caller stores fragments in roomier slots and passes the slot size as the fragment length (buffers really are that large)
static void maybe_slack(Rng &r, Json &j, int one_in = 12) {
    static const int sl[] = {1, 3, 16, 48, 64, 100, 432, 4016};
    if (r.chance(1, (u64) one_in)) j.set("slack", sl[r.below(8)]);
}
static int pick_al(Rng &r) { unsigned x = (unsigned) r.below(10); return x < 6 ? 16 : x < 8 ? 0 : (int) r.range(1, 15); }

// delivery list for an index set (bit mask), with duplicate / reorder / misalign delivery faults
static Json delivery(G &g, u64 mask, int n, bool shape_faults) {
    std::vector<int> idx;
    for (int i = 0; i < n; i++) if ((mask >> i) & 1) idx.push_back(i);
    Rng &r = g.faults;
    if (shape_faults) {
        if (r.chance(1, 2)) r.shuffle(idx);
        if (!idx.empty() && r.chance(1, 5)) {
            // duplicated delivery; now and then a flood of duplicates (more entries than the stripe has fragments)
            int d = r.chance(1, 8) ? (r.chance(1, 3) ? (int) r.range(30, 80) : (int) r.range(n, 2 * n + 3)) : (int) r.range(1, 3);
            for (int i = 0; i < d; i++) idx.insert(idx.begin() + r.below(idx.size() + 1), idx[r.below(idx.size())]);
        }
    }
    if (shape_faults && !idx.empty() && (g.index & 3) == 2 && g.prop != "C18" && r.chance(1, 600)) {   // (not in thread plans: every entry costs lock operations, i.e. yields of the budgeted scheduler)
        // an enormous list that repeats the very same buffers (on the small-stack runs): nothing sized by the caller's count may live on the stack
        size_t want = (size_t) r.range(100000, 160000), base = idx.size();
        for (size_t i = 0; idx.size() < want; i++) idx.push_back(idx[i % base]);
    }
    Json dl = Json::arr();
    std::set<int> seen;
    for (int d : idx) {
        Json e = Json::obj(); e.set("dev", d).set("al", shape_faults ? pick_al(r) : 16);
        if (idx.size() > 1000) { if (!seen.insert(d).second) { e.set("al", 16).set("same", 1); } dl.push(e); continue; }
        if (!seen.insert(d).second && r.chance(1, 2)) e.set("same", 1);   // the very same buffer passed twice, not a copy
        dl.push(e);
    }
    return dl;
}
static u64 random_subset(Rng &r, int n, int size) {
    std::vector<int> v(n); for (int i = 0; i < n; i++) v[i] = i;
    r.shuffle(v); u64 m = 0;
    for (int i = 0; i < size && i < n; i++) m |= 1ULL << v[i];
    return m;
}
static u64 full(int n) { return n >= 64 ? ~0ULL : (1ULL << n) - 1; }
static int tolerance(const Cfg &c) { return c.be == BE_XOR ? c.hd - 1 : c.m; }

// erasure set within tolerance, biased to the maximum; survivors optionally cut down to exactly k (RS only)
static u64 survivors_within(G &g, const Cfg &c) {
    Rng &r = g.faults; int n = c.n(), tol = tolerance(c);
    int e = r.chance(1, 2) ? tol : (int) r.range(0, tol);
    if (r.chance(1, 4)) return full(n);  // fault-free delivery
    u64 lost = random_subset(r, n, e);
    if (r.chance(1, 5)) {  // bias towards losing data fragments (forces real decoding)
        lost = 0; std::vector<int> d(c.k); for (int i = 0; i < c.k; i++) d[i] = i; r.shuffle(d);
        for (int i = 0; i < e && i < c.k; i++) lost |= 1ULL << d[i];
    }
    return full(n) & ~lost;
}

// ------------------------------------------------------------------ C01 / C03 / C19 (within tolerance, pristine)
static void gen_roundtrip(G &g, bool isal) {
    Cfg c = isal ? any_coded_shape(g.world, true, false, true) : any_coded_shape(g.world, false, false, true);
    c.ct = g.world.chance(1, 2) ? 2 : 1;
    if (g.world.chance(1, 20)) c.ct = 3;   // CHKSUM_MD5: accepted by create, no checksum is computed for it
    if (g.world.chance(1, 10)) c.w = isal ? 8 : 0;
    if (isal && g.world.chance(1, 8)) { static const int ws[] = {8, 16, 32}; c.w = ws[g.world.below(3)]; }   // accepted word sizes
    bool isal_faults = isal && g.world.chance(1, 3);
    g.ops.push(create_op(0, c));
    bool free_run = g.world.chance(1, 4);  // fault-free configuration, run separately
    // a bystander: a second live instance (same backend family more often than not, other shape) that is used with the
    // same loss pattern or destroyed in the middle of the main instance's traffic - other instances must not matter
    bool by = !free_run && g.world.chance(1, 5), by_done = false, twin = false; Cfg bc;
    if (by) {
        bc = g.world.chance(2, 3) ? (c.be == BE_XOR ? xor_shape_index((int) g.world.below(XOR_GOLDEN_N)) : rs_shape(g.world, c.be)) : any_coded_shape(g.world);
        if (c.be != BE_XOR && bc.be == c.be && g.world.chance(1, 2)) { bc.k = c.k; if (bc.m == c.m) bc.m = c.m > 1 ? c.m - 1 : c.m + 1; if (bc.k + bc.m > 32) bc.m = 32 - bc.k; bc.hd = bc.m; }
        // the two ISA-L adapters share their code: the other adapter with the very same (k, m) is the neighbour most likely to be confused with this one
        if (be_is_isal(c.be) && g.world.chance(1, 2)) { bc = c; bc.be = c.be == BE_IV ? BE_IC : BE_IV; twin = true; }
        bc.ct = c.ct;
        g.ops.push(create_op(1, bc));
        Json p = put_op(g, 9, 1, bc); p.set("len", (i64) g.data.range(1, 2000)); g.ops.push(p);
    }
    int nobj = g.plan.chance(1, 4) ? 2 : 1;
    // callers with small thread stacks and large objects: nothing the size of a fragment may live on the stack
    bool bigfrag = (g.index & 3) == 2 && c.k <= 12 && g.data.chance(1, g.thorough ? 10 : 25);
    for (int o = 0; o < nobj; o++) {
        Json po = put_op(g, o, 0, c);
        if (bigfrag && o == 0) po.set("len", (i64) ((u64) c.k * (u64) g.data.range(800 * 1024, 1200 * 1024) - (u64) g.data.range(0, 5)));
        if (bigfrag && o == 0 && c.k <= 3 && g.data.chance(1, 4)) po.set("len", (i64) ((u64) c.k * (u64) g.data.range(4096 * 1024, 4500 * 1024) - (u64) g.data.range(0, 5)));
        g.ops.push(po);
        int gets = (int) g.plan.range(1, 3);
        for (int i = 0; i < gets; i++) {
            u64 s = free_run ? full(c.n()) : survivors_within(g, c);
            if (by && !by_done && g.plan.chance(1, 2)) {
                by_done = true;
                if (g.plan.chance(1, 2)) g.ops.push(mk("DESTROY").set("slot", 1));
                else {
                    u64 lost = (full(c.n()) & ~s) & full(bc.n());
                    if (__builtin_popcountll(lost) > tolerance(bc)) lost = 0;
                    u64 bs = full(bc.n()) & ~lost;
                    Json j = mk("GET"); j.set("obj", 9).set("slot", 1).set("force", 0).set("dl", delivery(g, bs, bc.n(), false)); g.ops.push(j);
                    int dest = 0; for (int q = 0; q < bc.n(); q++) if ((lost >> q) & 1) { dest = q; break; }
                    Json r2 = mk("REPAIR"); r2.set("obj", 9).set("slot", 1).set("dest", dest).set("oal", 16).set("dl", delivery(g, bs, bc.n(), false)); g.ops.push(r2);
                }
            }
            if (!free_run && g.plan.chance(1, 15)) { static const int ids[] = {BE_NULL, BE_XOR, BE_RS, BE_IV, BE_IC, 1, 2, 5, 8}; Json a = mk("AVAIL"); a.set("id", g.plan.chance(1, 2) ? c.be : ids[g.plan.below(9)]); g.ops.push(a); }
            Json j = mk("GET"); j.set("obj", o).set("slot", 0).set("force", g.faults.chance(1, 3) ? 1 : 0).set("dl", delivery(g, s, c.n(), !free_run));
            // the writer's switch is a property of the writer: a reader runs with whatever its own environment holds
            if (g.faults.chance(1, 10)) { static const char *ev[] = {"1", "0", "yes", ""}; if (g.faults.chance(1, 4)) j.set("env", Json()); else j.set("env", ev[g.faults.below(4)]); }
            maybe_slack(g.faults, j);
            if (isal && g.plan.chance(1, 12)) {   // a refused create of either adapter while this instance is live: the shared plug-in must stay loaded
                Cfg bad = c; bad.be = g.plan.chance(1, 2) ? BE_IV : BE_IC; static const int bw[] = {5, 1, 7, 63, 64, 100}; bad.w = bw[g.plan.below(6)];
                g.ops.push(create_op(7, bad, -1)); g.ops.push(mk("DESTROY").set("slot", 7));
            }
            if (twin && g.plan.chance(1, 2)) { Json t = mk("GET"); t.set("obj", 9).set("slot", 1).set("force", 0).set("dl", delivery(g, s, c.n(), false)); g.ops.push(t); }
            if (isal_faults && g.faults.chance(1, 2)) { Json f = mk("ISAL"); f.set("fail_at", (int) g.faults.range(1, 2)).set("clobber", (int) g.faults.below(2)); g.ops.push(f); g.ops.push(j); }   // dependency reports a singular matrix, then the same call again
            g.ops.push(j);
            if (g.plan.chance(1, 8) || isal_faults) g.ops.push(j);   // the same call again: results must not depend on what a previous call left behind
        }
        int reps = (int) g.plan.range(1, 3);
        for (int i = 0; i < reps; i++) {
            u64 s = free_run ? full(c.n()) : survivors_within(g, c);
            Json j = mk("REPAIR"); j.set("obj", o).set("slot", 0);
            int dest; unsigned x = (unsigned) g.plan.below(20);
            std::vector<int> lost; for (int q = 0; q < c.n(); q++) if (!((s >> q) & 1)) lost.push_back(q);
            if (x < 12 && !lost.empty()) dest = g.plan.pick(lost);
            else if (x < 17 || g.prop == "C01" || g.prop == "C19") dest = (int) g.plan.below(c.n());
            else { static const int bad[] = {-1, 0, 1, 2, INT32_MAX, INT32_MIN}; int b = bad[g.plan.below(6)]; dest = (b >= 0 && b <= 2) ? c.n() + b : b; }
            j.set("dest", dest).set("oal", pick_al(g.faults)).set("dl", delivery(g, s, c.n(), !free_run));
            maybe_slack(g.faults, j);
            if (twin && dest >= 0 && dest < c.n() && g.plan.chance(1, 2)) {   // the same loss set and destination on the twin, immediately before
                Json t = mk("REPAIR"); t.set("obj", 9).set("slot", 1).set("dest", dest).set("oal", 16).set("dl", delivery(g, s, c.n(), false)); g.ops.push(t);
            }
            if (isal_faults && g.faults.chance(1, 2)) { Json f = mk("ISAL"); f.set("fail_at", 1).set("clobber", (int) g.faults.below(2)); g.ops.push(f); g.ops.push(j); }
            g.ops.push(j);
            if (g.plan.chance(1, 8) || isal_faults) g.ops.push(j);
        }
    }
    if (g.plan.chance(1, 2)) { Json d = mk("DESTROY"); d.set("slot", 0); g.ops.push(d); }
}

// ------------------------------------------------------------------ C02 (any sub-multiset of a pristine stripe)
static void gen_c02(G &g) {
    Cfg c = any_coded_shape(g.world);
    bool sweep = false; u64 sweep_mask = 0;
    if (g.thorough && g.world.chance(1, 3)) {
        // small codes: all 2^n subsets, by run index
        static const Cfg small[] = {{BE_RS, 2, 2, 2, 0, 1}, {BE_RS, 3, 2, 2, 0, 1}, {BE_RS, 4, 3, 3, 0, 1}, {BE_RS, 1, 3, 3, 0, 1}, {BE_XOR, 3, 3, 3, 0, 1},
                                    {BE_XOR, 5, 5, 3, 0, 1}, {BE_XOR, 5, 5, 4, 0, 1}, {BE_XOR, 6, 6, 4, 0, 1}, {BE_XOR, 6, 6, 3, 0, 1}, {BE_IV, 4, 4, 4, 0, 1}, {BE_IC, 5, 4, 4, 0, 1}};
        c = small[g.index % 11]; sweep = true; sweep_mask = (g.index / 11) & full(c.n());
    }
    c.ct = g.world.chance(1, 2) ? 2 : 1;
    // callers with small thread stacks and large objects: nothing the size of a fragment may live on the stack
    bool bigfrag = !sweep && (g.index & 3) == 2 && g.data.chance(1, g.thorough ? 10 : 25);
    bool big3 = false;
    if (bigfrag && g.data.chance(1, 2)) {   // the decoder path with the most scratch space: a distance-4 XOR code that lost three data fragments
        for (int tries = 0; tries < 40; tries++) { Cfg x = xor_shape_index((int) g.world.below(XOR_GOLDEN_N)); if (x.hd == 4 && x.k <= 12 && x.k >= 6) { x.ct = c.ct; c = x; big3 = true; break; } }
    }
    if (c.k > 12) bigfrag = false;
    g.ops.push(create_op(0, c));
    {
        Json po = put_op(g, 0, 0, c);
        if (bigfrag) po.set("len", (i64) ((u64) c.k * (u64) g.data.range(800 * 1024, 1200 * 1024) - (u64) g.data.range(0, 5)));
        g.ops.push(po);
    }
    int n = c.n(), tol = tolerance(c);
    int rounds = (int) g.plan.range(2, 5);
    for (int i = 0; i < rounds; i++) {
        Rng &r = g.faults;
        int e; unsigned x = (unsigned) r.below(100);
        if (x < 55) e = (int) r.range(tol + 1, std::min(n, c.m + 1));     // the band the front end lets through
        else if (x < 70) e = (int) r.range(0, tol);
        else if (x < 90) e = (int) r.range(std::min(n, c.m + 1), n);       // too few fragments
        else e = n - (int) r.range(0, 1);
        if (e > n) e = n;
        u64 s = full(n) & ~random_subset(r, n, e);
        if (c.be == BE_XOR && r.chance(1, 2)) {  // lose mostly data (the XOR decoders' hard cases)
            u64 lost = 0; std::vector<int> d(c.k); for (int q = 0; q < c.k; q++) d[q] = q; r.shuffle(d);
            int ed = std::min(e, c.k); for (int q = 0; q < ed; q++) lost |= 1ULL << d[q];
            lost |= random_subset(r, n, e - ed) & ~full(c.k); s = full(n) & ~lost;
        }
        if (sweep && i == 0) s = sweep_mask;
        if (big3 && i < 2) s = full(n) & ~random_subset(r, c.k, 3);
        if (r.chance(1, 10)) { static const int ids[] = {BE_NULL, BE_XOR, BE_RS, BE_IV, BE_IC, 1, 2, 5, 8}; Json a = mk("AVAIL"); a.set("id", r.chance(1, 2) ? c.be : ids[r.below(9)]); g.ops.push(a); }
        if (r.chance(1, 2)) {
            Json j = mk("GET"); j.set("obj", 0).set("slot", 0).set("force", r.chance(1, 4) ? 1 : 0).set("dl", delivery(g, s, n, true));
            maybe_slack(r, j, 16);
            g.ops.push(j);
        } else {
            Json j = mk("REPAIR"); j.set("obj", 0).set("slot", 0).set("dest", (int) r.below(n)).set("oal", pick_al(r)).set("dl", delivery(g, s, n, true));
            g.ops.push(j);
        }
        if (sweep && i == 0) {
            Json j = mk("REPAIR"); j.set("obj", 0).set("slot", 0).set("dest", (int) r.below(n)).set("oal", 16).set("dl", delivery(g, s, n, false));
            g.ops.push(j);
        }
    }
}

// ------------------------------------------------------------------ C05 (flat XOR: every erasure set < hd, every table)
struct XorSet { int table; u64 lost; };
static const std::vector<XorSet> &xor_all_sets() {
    static std::vector<XorSet> all;
    if (!all.empty()) return all;
    for (int t = 0; t < XOR_GOLDEN_N; t++) {
        int n = XOR_GOLDEN[t].k + XOR_GOLDEN[t].m, hd = XOR_GOLDEN[t].hd;
        all.push_back({t, 0});
        for (int a = 0; a < n; a++) {
            all.push_back({t, 1ULL << a});
            if (hd > 2) for (int b = a + 1; b < n; b++) {
                all.push_back({t, (1ULL << a) | (1ULL << b)});
                if (hd > 3) for (int c = b + 1; c < n; c++) all.push_back({t, (1ULL << a) | (1ULL << b) | (1ULL << c)});
            }
        }
    }
    return all;
}
static void gen_c05(G &g, u64 base_seed) {
    const std::vector<XorSet> &all = xor_all_sets();
    // run indexes 2j and 2j+1 do the same thing on the two XOR kernel flavours (index parity selects the worker's flavour)
    u64 jj = g.index / 2;
    if (jj % 12 == 11) {
        // shape whitelist: everything outside the 38 tables must be refused
        u64 chunk = (jj / 12) * 2 + (g.index & 1);
        for (int i = 0; i < 72; i++) {
            u64 q = (chunk * 72 + i) % (34 * 9 * 8);
            Cfg c; c.be = BE_XOR; c.k = (int) (q % 34); c.m = (int) ((q / 34) % 9); c.hd = (int) (q / (34 * 9)); c.ct = 1;
            bool ok = ref::xor_golden(c.k, c.m, c.hd) != nullptr;
            g.cells.push(std::string("box:") + std::to_string(q));
            g.ops.push(create_op(0, c, ok ? 1 : 0));
            if (ok) { Json d = mk("DESTROY"); d.set("slot", 0); g.ops.push(d); }
        }
        return;
    }
    // seed-keyed permutation of the 24191 (table, erasure set) pairs; quick takes a prefix that is stratified by table
    u64 N = all.size(), run = jj - jj / 12;
    u64 pos;
    Rng pick(mix_seed(base_seed, "c05-head", run));   // same choice for both flavours of the pair
    if (run < (u64) XOR_GOLDEN_N * 12) {
        // stratified head: every table, every erasure size, chosen by seed
        int t = (int) (run % XOR_GOLDEN_N); int sz = (int) ((run / XOR_GOLDEN_N) % XOR_GOLDEN[t].hd);
        std::vector<u64> cand; for (u64 i = 0; i < N; i++) if (all[i].table == t && __builtin_popcountll(all[i].lost) == sz) cand.push_back(i);
        pos = cand[pick.below(cand.size())];
    } else pos = (((run - (u64) XOR_GOLDEN_N * 12) * 7919ULL) + (base_seed % N)) % N;
    const XorSet &xs = all[pos];
    g.cells.push(std::string("xor:") + std::to_string(pos) + ((g.index & 1) ? ":portable" : ":sse2"));
    Cfg c = xor_shape_index(xs.table); c.ct = g.world.chance(1, 2) ? 2 : 1;
    if (g.world.chance(1, 4)) { static const int ws[] = {8, 16, 32, 4, 1, 7, -8, 64, 12, 2}; c.w = ws[g.world.below(10)]; }   // the backend has one word size: a caller's w must not matter
    // neighbours: other flat-XOR instances of other tables alive (or already gone) while the set is walked - an instance's
    // tables must be its own.  0: alone; 1: neighbour created after; 2: before; 3: after and destroyed again; 4: one before, one after
    int nb = (int) g.world.below(5);
    auto neighbour = [&](int slot) {
        Cfg o = xor_shape_index((int) ((xs.table + 1 + g.world.below(XOR_GOLDEN_N - 1)) % XOR_GOLDEN_N)); o.ct = 1;
        g.ops.push(create_op(slot, o));
        if (g.world.chance(1, 3)) {
            Json q = put_op(g, 1 + (slot - 1), slot, o); q.set("len", (i64) g.data.range(1, 400)); g.ops.push(q);
            u64 so = full(o.n()) & ~random_subset(g.faults, o.n(), (int) g.faults.range(1, std::max(1, o.hd - 1)));
            Json j = mk("GET"); j.set("obj", 1 + (slot - 1)).set("slot", slot).set("force", 0).set("dl", delivery(g, so, o.n(), false)); g.ops.push(j);
        }
    };
    if (nb == 2 || nb == 4) neighbour(1);
    g.ops.push(create_op(0, c));
    if (nb == 1 || nb == 3 || nb == 4) neighbour(2);
    if (nb == 3) { Json d = mk("DESTROY"); d.set("slot", 2); g.ops.push(d); }
    Json p = put_op(g, 0, 0, c);
    // payload sizes: non-multiples of 16 and of 4 bytes per fragment are the kernel's tail paths
    if (g.data.chance(1, 2)) p.set("len", (i64) ((u64) c.k * 4 * g.data.range(1, 300) - (u64) g.data.range(0, 3)));
    bool three_data = c.hd == 4 && __builtin_popcountll(xs.lost) == 3 && (xs.lost >> c.k) == 0;   // the three-data decoder: the path with scratch space
    if (c.k <= 6 && (g.data.chance(1, g.thorough ? 40 : 120) || (three_data && g.data.chance(1, 2)))) {
        // large fragments: (1 or 2 MiB) + a tail that is not a multiple of 16 bytes
        static const int tails[] = {4, 8, 12, 0, 20, 28};
        u64 frag = ((u64) g.data.range(1, 2) << 20) + (u64) tails[g.data.below(6)];
        p.set("len", (i64) ((u64) c.k * frag - (u64) g.data.range(0, 3)));
    }
    g.ops.push(p);
    u64 s = full(c.n()) & ~xs.lost;
    Json j = mk("GET"); j.set("obj", 0).set("slot", 0).set("force", 0).set("dl", delivery(g, s, c.n(), g.faults.chance(1, 2))); g.ops.push(j);
    for (int d = 0; d < c.n(); d++) if ((xs.lost >> d) & 1) {
        Json r = mk("REPAIR"); r.set("obj", 0).set("slot", 0).set("dest", d).set("oal", pick_al(g.faults)).set("dl", delivery(g, s, c.n(), g.faults.chance(1, 2))); g.ops.push(r);
    }
    { Json r = mk("REPAIR"); r.set("obj", 0).set("slot", 0).set("dest", (int) g.plan.below(c.n())).set("oal", 16).set("dl", delivery(g, s, c.n(), false)); g.ops.push(r); }
    if (g.world.chance(1, 3) && xs.lost) {
        // a successor: the instance is destroyed, one of another table takes its place (on the un-sanitized build: its very
        // heap address) and loses the same fragments - nothing remembered about the dead instance may be used for it
        for (int tries = 0; tries < 30; tries++) {
            Cfg b = xor_shape_index((int) g.world.below(XOR_GOLDEN_N));
            if (b.k == c.k && b.m == c.m && b.hd == c.hd) continue;
            if ((xs.lost >> b.n()) != 0 || __builtin_popcountll(xs.lost) >= b.hd) continue;
            b.ct = c.ct;
            g.ops.push(mk("DESTROY").set("slot", 0));
            g.ops.push(create_op(0, b));
            Json pb = put_op(g, 0, 0, b); pb.set("len", (i64) g.data.range(1, 3000)); g.ops.push(pb);
            u64 sb = full(b.n()) & ~xs.lost;
            Json gj = mk("GET"); gj.set("obj", 0).set("slot", 0).set("force", 0).set("dl", delivery(g, sb, b.n(), false)); g.ops.push(gj);
            for (int d = 0; d < b.n(); d++) if ((xs.lost >> d) & 1) { Json r = mk("REPAIR"); r.set("obj", 0).set("slot", 0).set("dest", d).set("oal", 16).set("dl", delivery(g, sb, b.n(), false)); g.ops.push(r); break; }
            break;
        }
    }
}

// ------------------------------------------------------------------ C06 (fragments_needed)
static void gen_c06(G &g, bool isal) {
    Cfg c;
    bool xsweep = !isal && g.world.chance(1, 2);
    if (xsweep) c = xor_shape_index((int) (g.index % XOR_GOLDEN_N));
    else if (isal) c = rs_shape(g.world, g.world.chance(1, 2) ? BE_IV : BE_IC);
    else c = g.world.chance(2, 3) ? rs_shape(g.world, BE_RS) : rs_shape(g.world, g.world.chance(1, 2) ? BE_IV : BE_IC);
    c.ct = 1;
    g.ops.push(create_op(0, c));
    Json p = put_op(g, 0, 0, c); p.set("len", (i64) g.data.range(1, 600)); g.ops.push(p);
    int n = c.n(), tol = tolerance(c);
    // flat-XOR tables exist in pairs (k, m, 3) / (k, m, 4): the sibling is asked the same question right after (or before)
    bool sib = false; Cfg sc = c;
    if (c.be == BE_XOR) { sc.hd = c.hd == 3 ? 4 : 3; if (ref::xor_golden(sc.k, sc.m, sc.hd) && g.world.chance(1, 2)) { sib = true; g.ops.push(create_op(1, sc)); Json p1 = put_op(g, 1, 1, sc); p1.set("len", p["len"].num()); g.ops.push(p1); } }
    int q = (int) g.plan.range(8, 30);
    for (int i = 0; i < q; i++) {
        Rng &r = g.faults;
        int tot; unsigned x = (unsigned) r.below(100);
        if (x < 70) tot = (int) r.range(1, std::max(1, tol));
        else if (x < 85) tot = std::min(n, tol + 1);
        else tot = (int) r.range(1, n);
        u64 m = random_subset(r, n, tot);
        if (c.be == BE_XOR && r.chance(1, 2)) { m = random_subset(r, c.k, std::min(tot, c.k)); }  // all-data sets: the planners' hard cases
        std::vector<int> v; for (int b = 0; b < n; b++) if ((m >> b) & 1) v.push_back(b);
        r.shuffle(v);
        int nr = (int) r.range(1, (i64) v.size());
        if (r.chance(1, 2)) nr = 1;
        Json j = mk("PLAN"); j.set("slot", 0).set("obj", 0).set("confirm", r.chance(1, 2) ? 1 : 0);
        j.set("R", Json::ints(std::vector<int>(v.begin(), v.begin() + nr))).set("X", Json::ints(std::vector<int>(v.begin() + nr, v.end())));
        if (r.chance(1, 8) && tot <= tol) j.set("dupX", Json::ints({v[r.below((u64) nr)]}));   // an index to rebuild that is also named in the exclude list
        if (r.chance(1, 10) && tot <= tol) {   // lists with repeats, up to a few hundred entries; some with a distinct index first appearing after position 32 / 64
            static const int lens[] = {2, 5, 31, 32, 33, 63, 64, 65, 66, 100, 200, 300};
            Json pd = Json::obj(); pd.set("seed", (i64) (r.next() >> 20)).set("R", r.chance(2, 3) ? lens[r.below(12)] : 0).set("X", r.chance(1, 2) ? lens[r.below(12)] : 0).set("front", (int) r.below(2));
            j.set("pad", pd);
        }
        if (sib && tot <= std::min(tol, tolerance(sc)) && r.chance(1, 2)) {
            Json j2 = j; j2.set("slot", 1).set("obj", 1);
            if (r.chance(1, 2)) { g.ops.push(j2); g.ops.push(j); } else { g.ops.push(j); g.ops.push(j2); }
            continue;
        }
        g.ops.push(j);
    }
    if (c.be != BE_XOR && g.world.chance(1, 6)) {
        // create / ask / destroy cycles over different shapes with one and the same question: an answer may not outlive its instance
        for (int z = 0; z < 14; z++) {
            Cfg b = rs_shape(g.world, c.be); if (b.m < 2) b.m = 2; if (b.k < 2) b.k = 2; if (b.k + b.m > 32) b.k = 32 - b.m; b.hd = b.m; b.ct = 1;
            g.ops.push(mk("DESTROY").set("slot", 0));
            g.ops.push(create_op(0, b));
            Json pb = put_op(g, 0, 0, b); pb.set("len", (i64) g.data.range(1, 300)); g.ops.push(pb);
            Json j = mk("PLAN"); j.set("slot", 0).set("obj", 0).set("confirm", z & 1).set("R", Json::ints({0})).set("X", Json::ints({1})); g.ops.push(j);
        }
    }
}

// ------------------------------------------------------------------ damage vocabulary (scrub mode)
static const char *FIELDS[] = {"idx", "size", "bemeta", "origlen", "ct", "chksum0", "mismatch", "beid", "bever", "magic", "libver", "metacrc"};
static Json fx1(const char *k) { Json f = Json::obj(); f.set("k", k); return f; }
static Json fx_flip(i64 bit) { Json f = fx1("flip"); f.set("bit", bit); return f; }
static Json fx_field(const char *fld, i64 val, int seal) { Json f = fx1("field"); f.set("f", fld).set("val", val).set("seal", seal); return f; }
static const u32 VER_CUR = (1u << 16) | (6u << 8) | 4;

// header damage for C09: flips, overwrites, bursts, torn prefixes, version/magic rewrites, legacy seal, endian
static Json header_damage(G &g, u64 flen, bool allow_semantic) {
    Rng &r = g.faults; Json fx = Json::arr();
    unsigned x = (unsigned) r.below(100);
    if (x < 30) fx.push(fx_flip((i64) r.below(640)));
    else if (x < 40) { Json f = fx1("set"); f.set("off", (i64) r.below(80)).set("val", (i64) r.below(256)); fx.push(f); }
    else if (x < 50) { Json f = fx1("burst"); f.set("off", (i64) r.below(80)).set("n", (i64) r.range(2, 12)).set("seed", (i64) (r.next() >> 20)); fx.push(f); }
    else if (x < 57) { Json f = fx1("torn"); f.set("prefix", (i64) r.below(80)); fx.push(f); }
    else if (x < 67) {  // version rewrites, with and without re-sealing (version is outside the CRC'd bytes)
        static const u32 vs[] = {0, 1, (1u << 16) | (1u << 8) | 255, (1u << 16) | (2u << 8), VER_CUR, VER_CUR + 1, VER_CUR - 1, 0x01020000u, 0xffffffffu, 0x00000100u};
        fx.push(fx_field("libver", vs[r.below(10)], (int) r.below(3)));
    } else if (x < 75) {
        static const u32 ms[] = {0, 0xcc5e0c0bu, 0x0b0c5ecd, 0x0b0c5ecc, 0x0b0c5e4c, 0xffffffffu};
        fx.push(fx_field("magic", ms[r.below(6)], 0));
    } else if (x < 81) fx.push(fx1("legacyseal"));
    else if (x < 87) fx.push(fx1("endian"));
    else if (x < 92) { fx.push(fx_flip((i64) (ref::OFF_PAD * 8 + r.below(72)))); }   // padding only: not covered by the CRC
    else if (allow_semantic) {
        // re-sealed semantic change that keeps the size fields sane
        static const char *safe[] = {"idx", "beid", "bever", "mismatch", "chksum0", "origlen", "ct"};
        const char *f = safe[r.below(7)];
        i64 v = !strcmp(f, "origlen") ? (i64) r.below(4096) : !strcmp(f, "ct") ? (i64) r.below(6) : (i64) r.below(300);
        fx.push(fx_field(f, v, (int) r.range(1, 2)));
    } else fx.push(fx_flip((i64) r.below(640)));
    if (r.chance(1, 8)) fx.push(fx_flip((i64) r.below(640)));
    if (r.chance(1, 10)) fx.push(fx1("endian"));
    if (r.chance(1, 5)) {
        // compositions around the byte-order branch: a foreign-endian header whose (logical) writer version sits on either
        // side of the 1.2.0 gate, with a CRC that is right, stale, or of the historical flavour
        static const u32 vs[] = {0x010000, 0x010001, 0x010105, 0x010100, 0x0101ff, 0x010200, 0x010201, 0x010604, 0x020000, 0x030000, 0x000001, 0x7f0000};
        Json c = Json::arr();
        int order = (int) r.below(3);   // 0: endian first, 1: endian last, 2: host order
        if (order == 0) c.push(fx1("endian"));
        // any 32-bit word can sit in the version field (it is outside the CRC'd bytes): named releases and arbitrary words
        u32 ver = r.chance(2, 3) ? vs[r.below(12)] : (u32) (r.next() >> (r.below(4) * 8)) ;
        c.push(fx_field("libver", ver, (int) r.below(3)));
        if (order == 1) c.push(fx1("endian"));
        unsigned y = (unsigned) r.below(4);
        if (y == 0) c.push(fx_field("metacrc", (i64) (r.next() & 0xffffffffu), 0));
        else if (y == 1) c.push(fx_flip((i64) r.below(ref::META * 8)));
        else if (y == 2) c.push(fx1("legacyseal"));
        return c;
    }
    return fx;
}
static Json payload_damage(G &g, u64 flen) {
    Rng &r = g.faults; Json fx = Json::arr();
    if (flen <= 80) return fx;
    u64 pl = flen - 80;
    unsigned x = (unsigned) r.below(100);
    if (x < 50) fx.push(fx_flip((i64) (640 + r.below(pl * 8))));
    else if (x < 70) { Json f = fx1("burst"); f.set("off", (i64) (80 + r.below(pl))).set("n", (i64) r.range(1, 64)).set("seed", (i64) (r.next() >> 20)); fx.push(f); }
    else if (x < 80) { Json f = fx1("set"); f.set("off", (i64) (80 + r.below(pl))).set("val", (i64) r.below(256)); fx.push(f); }
    else if (x < 90) { Json f = fx1("torn"); f.set("prefix", (i64) (80 + r.below(pl))); fx.push(f); }
    else fx.push(fx1("stale"));
    return fx;
}

static void gen_c09(G &g) {
    if (g.world.chance(1, 24)) {
        // a header whose metadata checksum is exactly 0 - a legal CRC value, not "never sealed": written by encode itself
        Cfg c; c.be = BE_RS; c.k = 1; c.m = (int) g.world.range(1, 3); c.hd = c.m; c.ct = 2;
        g.ops.push(create_op(0, c));
        Json p = put_op(g, 0, 0, c); p.set("len", (i64) (2 * g.data.range(4, 600))).set("pat", 7); if (g.world.chance(1, 4)) p.set("env", "1"); g.ops.push(p);
        for (int i = 0; i < 3; i++) { Json j = mk("SCRUB"); j.set("obj", 0).set("slot", 0).set("dev", i == 2 ? 1 : 0).set("al", pick_al(g.faults)).set("fx", i == 1 ? header_damage(g, 0, true) : Json::arr()); g.ops.push(j); }
        Json gt = mk("GET"); gt.set("obj", 0).set("slot", 0).set("force", (int) g.faults.below(2)).set("dl", delivery(g, full(c.n()), c.n(), false)); g.ops.push(gt);
        Json rp = mk("REPAIR"); rp.set("obj", 0).set("slot", 0).set("dest", 1).set("oal", 16).set("dl", delivery(g, 1, c.n(), false)); g.ops.push(rp);
        return;
    }
    Cfg c = any_coded_shape(g.world, false, true); c.ct = g.world.chance(1, 2) ? 2 : 1;
    if (c.k + c.m > 12 && g.world.chance(2, 3)) { c = rs_shape(g.world, BE_RS); c.k = (int) g.world.range(1, 6); c.m = (int) g.world.range(1, 3); c.hd = c.m; c.ct = 2; }
    g.ops.push(create_op(0, c));
    Json p = put_op(g, 0, 0, c); p.set("len", (i64) g.data.range(0, 900));
    if (g.world.chance(1, 6)) p.set("env", "1");
    g.ops.push(p);
    if (g.world.chance(1, 6)) { Json e = mk("ENV"); g.ops.push(e); }
    int n = c.n();
    int rounds = (int) g.plan.range(4, 14);
    for (int i = 0; i < rounds; i++) {
        Rng &r = g.faults;
        Json fx = header_damage(g, 0, false);
        if (i == 0) { fx = Json::arr(); fx.push(fx_flip((i64) (g.index % 640))); g.cells.push(std::string("bit:") + std::to_string(g.index % 640)); }  // the 640 single-bit flips, swept by run index
        unsigned x = (unsigned) r.below(10);
        int dev = (int) r.below(n);
        if (x < 6) { Json j = mk("SCRUB"); j.set("obj", 0).set("slot", 0).set("dev", dev).set("al", pick_al(r)).set("fx", fx); g.ops.push(j); }
        else {
            // consume path: one damaged header inside an otherwise sufficient delivery
            u64 s = survivors_within(g, c) | (1ULL << dev);
            Json dl = delivery(g, s, n, r.chance(1, 2));
            for (auto &e : dl.a) if (e["dev"].in() == dev) { e.set("fx", fx); break; }
            Json j = mk(x < 8 ? "GET" : "REPAIR"); j.set("obj", 0).set("slot", 0).set("dl", dl);
            if (x < 8) j.set("force", r.chance(1, 3) ? 1 : 0); else j.set("dest", (int) r.below(n)).set("oal", 16);
            g.ops.push(j);
        }
    }
}

static void gen_c10(G &g) {
    static const char *envs[] = {nullptr, "", "0", "1", "yes", "00", "true", "01", " ", "no"};
    static const char *long_envs[] = {"00000000", "0000000000000000", "legacy-crc-please", "false", "FALSE", "off", "disabled-by-operator-2024-01-01T00:00:00Z-ticket-1234567890",
                                      "0 ", "-1", "1234567", "12345678", "123456789012345678901234567890123456789012345678901234567890123456789012345678901234567890123456789012345678901234567890123456789012345"};
    Cfg c = any_coded_shape(g.world, false, true); c.ct = 2;
    if (g.world.chance(1, 2)) { c = rs_shape(g.world, BE_RS); c.k = (int) g.world.range(1, 5); c.m = (int) g.world.range(1, 3); c.hd = c.m; c.ct = 2; }
    bool special_crc = g.world.chance(1, 16);
    if (special_crc) { c = Cfg(); c.be = BE_RS; c.k = 1; c.m = (int) g.world.range(1, 3); c.hd = c.m; c.ct = 2; }
    g.ops.push(create_op(0, c));
    int n = c.n();
    // a second instance of the same code with checksums off (resp. on): stripes of one are rebuilt by the other
    bool other_ct = g.world.chance(1, 4);
    if (other_ct) { Cfg c2 = c; c2.ct = 1; g.ops.push(create_op(1, c2)); Json p1 = put_op(g, 5, 1, c2); p1.set("len", (i64) g.data.range(1, 1500)); g.ops.push(p1); }
    int objs = (int) g.plan.range(1, 2);
    for (int o = 0; o < objs; o++) {
        Json p = put_op(g, o, 0, c);
        if (special_crc) p.set("len", (i64) (2 * g.data.range(4, 300))).set("pat", g.data.chance(1, 2) ? 5 : 6);   // stored checksum 0 / all ones
        bool tiny = !special_crc && g.data.chance(1, 3);
        if (tiny) p.set("len", (i64) g.data.range(0, (i64) c.k * 16));   // payloads <= 64 bytes: every single bit is flipped over the sweep
        const char *e = envs[g.faults.below(10)];
        if (e) p.set("env", e); else p.set("env", Json());
        g.ops.push(p);
        if (g.plan.chance(1, 3)) { Json p2 = put_op(g, o, 0, c); p2.set("len", p["len"].num()); const char *e2 = envs[g.faults.below(10)]; if (e2) p2.set("env", e2); else p2.set("env", Json());
            if (g.faults.chance(1, 2)) { Json st = Json::arr(); Json f = fx1(g.faults.chance(1, 2) ? "stale" : "torn"); f.set("dev", (i64) g.faults.below(n)).set("prefix", (i64) g.faults.range(80, 200)); st.push(f); p2.set("store", st); }
            g.ops.push(p2); }
        int rounds = (int) g.plan.range(4, 12);
        for (int i = 0; i < rounds; i++) {
            Rng &r = g.faults;
            if (r.chance(1, 4)) { Json ev = mk("ENV"); const char *e3 = r.chance(1, 4) ? long_envs[r.below(12)] : envs[r.below(10)]; if (e3) ev.set("val", e3); g.ops.push(ev); }
            if (r.chance(1, 12)) {   // a different variable whose name contains the switch's name
                static const char *names[] = {"LIBERASURECODE_WRITE_LEGACY_CRC_UNTIL", "LIBERASURECODE_WRITE_LEGACY_CRCS", "XLIBERASURECODE_WRITE_LEGACY_CRC", "LIBERASURECODE_WRITE_LEGACY_CR", "LIBERASURECODE_WRITE_LEGACY_CRC2"};
                Json ev = mk("ENV"); ev.set("name", names[r.below(5)]); if (r.chance(4, 5)) ev.set("val", r.chance(1, 2) ? "1" : "yes"); g.ops.push(ev);
            }
            unsigned x = (unsigned) r.below(10);
            int dev = (int) r.below(n);
            if (x < 7) {
                Json fx = r.chance(1, 5) ? Json::arr() : payload_damage(g, 80 + 64);
                if (i == 0 && tiny) { fx = Json::arr(); fx.push(fx_flip((i64) (640 + g.index % 512))); }
                if (r.chance(1, 8)) fx.push(fx1("legacyseal"));
                if (r.chance(1, 8)) { static const u32 ov[] = {0x010000, 0x010009, 0x010101, 0x0101ff, 0x010200, 0x010300}; fx.push(fx_field("libver", ov[r.below(6)], (int) r.below(3))); }   // fragments of old writers
                Json j = mk("SCRUB"); j.set("obj", o).set("slot", 0).set("dev", dev).set("al", pick_al(r)).set("fx", fx); g.ops.push(j);
            } else {
                u64 s = survivors_within(g, c);
                Json j = mk("REPAIR"); j.set("obj", o).set("slot", 0).set("dest", dev).set("oal", 16).set("dl", delivery(g, s & ~(1ULL << dev), n, false));
                if (__builtin_popcountll(full(n) & ~(s & ~(1ULL << dev))) > tolerance(c)) j.set("dl", delivery(g, full(n) & ~(1ULL << dev), n, false));
                const char *e4 = envs[r.below(10)];
                if (r.chance(1, 2)) { if (e4) j.set("env", e4); else j.set("env", Json()); }
                if (other_ct && r.chance(1, 2)) { if (r.chance(1, 2)) j.set("obj", 5); else j.set("slot", 1); }   // unchecksummed stripe rebuilt by the CRC32 instance, or the reverse
                g.ops.push(j);
            }
        }
    }
}

static void gen_c11(G &g) {
    Cfg c = any_coded_shape(g.world, false, true); c.ct = g.world.chance(2, 3) ? 2 : 1;
    if (g.world.chance(1, 2)) { c.be = BE_RS; c.k = (int) g.world.range(1, 6); c.m = (int) g.world.range(1, 3); c.hd = c.m; }
    g.ops.push(create_op(0, c));
    Json p = put_op(g, 0, 0, c); p.set("len", (i64) g.data.range(0, 2000)); if (g.world.chance(1, 5)) p.set("env", "1"); g.ops.push(p);
    int rounds = (int) g.plan.range(3, 10);
    for (int i = 0; i < rounds; i++) {
        Rng &r = g.faults; Json fx = Json::arr();
        unsigned x = (unsigned) r.below(10);
        if (x < 4) fx = payload_damage(g, 80 + 64);
        else if (x < 6) {
            static const char *safe[] = {"idx", "beid", "bever", "chksum0", "origlen", "origlen"};
            const char *f = safe[r.below(6)];
            // original lengths beyond 2^32 use the upper half of the 64-bit field (the metadata query needs no buffer for them)
            i64 v = strcmp(f, "origlen") ? (i64) r.below(70000) : (r.chance(1, 2) ? (i64) r.below(70000) : (i64) ((r.next() >> (1 + r.below(30))) | (1ULL << 32)));
            fx.push(fx_field(f, v, 1)); }
        else if (x < 7) fx.push(fx_flip((i64) r.below(640)));
        else if (x < 8) {
            // the checksum words beyond the first (a 128-bit digest uses four), with the checksum type that owns them
            static const char *cw[] = {"chksum1", "chksum2", "chksum3", "chksum4", "chksum5", "chksum6", "chksum7"};
            int nw = (int) r.range(1, 7);
            for (int q = 0; q < nw; q++) fx.push(fx_field(cw[r.below(7)], (i64) (r.next() & 0xffffffffu), 0));
            fx.push(fx_field("ct", r.chance(1, 2) ? 3 : (i64) r.below(5), 1));
        }
        if (r.chance(1, 6)) {   // stamped by another release: before 1.2.0 there is no metadata checksum to re-seal
            static const u32 vs[] = {0x010000, 0x010001, 0x010009, 0x010100, 0x010101, 0x010103, 0x0101ff, 0x010200, 0x010300, 0x010400, 0x010603, 0x020000};
            fx.push(fx_field("libver", vs[r.below(12)], (int) r.below(2)));
            if (r.chance(1, 2)) fx.push(fx_field("metacrc", r.chance(1, 2) ? 0 : (i64) (r.next() & 0xffffffffu), 0));   // ... which such a writer never wrote
        }
        Json j = mk("SCRUB"); j.set("obj", 0).set("slot", 0).set("dev", (int) r.below(c.n())).set("al", pick_al(r)).set("fx", fx).set("twin", 1);
        g.ops.push(j);
    }
}

static void gen_c12(G &g) {
    int ninst = (int) g.world.range(2, 4);
    std::vector<Cfg> cs;
    for (int i = 0; i < ninst; i++) {
        Cfg c; unsigned x = (unsigned) g.world.below(10);
        if (x < 4) { c.be = BE_RS; c.k = (int) g.world.range(1, 8); c.m = (int) g.world.range(1, 4); c.hd = c.m; }
        else if (x < 7) c = xor_shape_index((int) g.world.below(XOR_GOLDEN_N));
        else if (x < 9) { c.be = g.world.chance(1, 2) ? BE_IV : BE_IC; c.k = (int) g.world.range(1, 8); c.m = (int) g.world.range(1, 4); c.hd = c.m; }
        else { c.be = BE_NULL; c.k = (int) g.world.range(1, 8); c.m = (int) g.world.range(1, 4); c.hd = c.m; }
        if (i > 0 && g.world.chance(1, 3)) { c = cs[0]; if (g.world.chance(1, 2)) { c.k = std::max(1, c.k - 1); if (c.be == BE_XOR) c = cs[0]; } }
        c.ct = g.world.chance(2, 3) ? 2 : 1;
        bool hz = g.world.chance(1, 16);   // this instance's stripe has a header whose metadata checksum is exactly 0
        if (hz) { c = Cfg(); c.be = BE_RS; c.k = 1; c.m = (int) g.world.range(1, 3); c.hd = c.m; c.ct = 2; }
        cs.push_back(c);
        g.ops.push(create_op(i, c));
        Json p = put_op(g, i, i, c); p.set("len", (i64) g.data.range(0, 1500)); if (g.world.chance(1, 8)) p.set("env", "1");
        if (hz) p.set("len", (i64) (2 * g.data.range(4, 600))).set("pat", 7);
        g.ops.push(p);
        if (hz) { Json j = mk("SCRUB"); j.set("obj", i).set("slot", i).set("dev", 0).set("al", 16).set("fx", Json::arr()); g.ops.push(j); }
    }
    { Json e = mk("ENV"); g.ops.push(e); }
    int rounds = (int) g.plan.range(8, 24);
    for (int i = 0; i < rounds; i++) {
        Rng &r = g.faults;
        int reader = (int) r.below(ninst), writer = r.chance(1, 2) ? reader : (int) r.below(ninst);
        const Cfg &rc = cs[reader]; int n = rc.n();
        Json fx = Json::arr();
        unsigned x = (unsigned) r.below(100);
        int seal = r.chance(4, 5) ? (int) r.range(1, 2) : 0;
        if (x < 22) { static const i64 off[] = {-1, 0, 1, 2}; i64 v; unsigned y = (unsigned) r.below(10);
            if (y < 6) v = n + off[r.below(4)]; else if (y < 7) v = 0; else { static const i64 big[] = {0x7fffffffLL, 0x80000000LL, 0xffffffffLL, 32, 33, 64}; v = big[r.below(6)]; }
            fx.push(fx_field("idx", v, seal)); }
        else if (x < 34) fx.push(fx_field("beid", (i64) r.below(256), seal));
        else if (x < 44) {
            u32 bv = 0x010000; if (rc.be == BE_IV || rc.be == BE_IC) bv = (2u << 16) | (13u << 8);
            unsigned y = (unsigned) r.below(4); i64 v;
            if (r.chance(1, 6)) v = 0;   // "no version": written before backends were versioned?
            else if (y == 0) v = (i64) bv + r.range(-1, 1);
            else if (y == 1) v = (i64) (bv ^ (1u << r.below(32)));                      // one bit anywhere in the word
            else if (y == 2) v = (i64) (bv | ((u32) r.range(1, 255) << 24));           // same release, other top byte
            else v = (i64) (u32) r.next();
            fx.push(fx_field("bever", v, seal)); }
        else if (x < 54) { static const i64 d[] = {-1, 1, 256, -256, 65536}; fx.push(fx_field("libver", (i64) VER_CUR + d[r.below(5)], seal)); }
        else if (x < 58) fx.push(fx_field("mismatch", (i64) r.below(2), seal));
        else if (x < 60) fx.push(fx_field("ct", (i64) r.below(5), seal));
        else if (x < 70) fx = payload_damage(g, 80 + 64);
        else if (x < 78) fx = header_damage(g, 0, true);
        else if (x < 82) fx.push(fx1("endian"));
        else if (x < 88) { Json f = fx1("misdirect"); f.set("obj", (int) r.below(ninst)).set("dev", (i64) r.below(32)); fx.push(f); }
        // else: pristine
        if (r.chance(1, 4)) {
            Json fr = Json::arr(); int cnt = (int) r.range(1, 5);
            for (int q = 0; q < cnt; q++) {
                Json e = Json::obj(); e.set("obj", r.chance(3, 4) ? reader : (int) r.below(ninst)).set("dev", (i64) r.below(32));
                if (q == 0) e.set("fx", fx);
                else if (r.chance(1, 4)) { Json f2 = Json::arr(); static const char *fl[] = {"idx", "beid", "bever", "mismatch"}; const char *f = fl[r.below(4)];
                    f2.push(fx_field(f, !strcmp(f, "idx") ? n + (i64) r.range(-1, 2) : !strcmp(f, "mismatch") ? (i64) r.below(2) : (i64) r.below(300), (int) r.below(3))); e.set("fx", f2); }
                fr.push(e);
            }
            if (r.chance(1, 2)) std::swap(fr.a[0], fr.a[fr.a.size() - 1]);
            Json j = mk("VSM"); j.set("slot", reader).set("fr", fr); g.ops.push(j);
        } else {
            Json j = mk("SCRUB"); j.set("obj", writer).set("slot", reader).set("dev", (i64) r.below(32)).set("al", pick_al(r)).set("fx", fx); g.ops.push(j);
        }
    }
}

// ------------------------------------------------------------------ C20 (forced metadata checks)
static void gen_c20(G &g) {
    Cfg c = any_coded_shape(g.world); c.ct = 2;
    bool special_crc = g.world.chance(1, 16);   // the data fragment's stored CRC-32 is exactly 0 / 0xffffffff
    if (special_crc) { c = Cfg(); c.be = BE_RS; c.k = 1; c.m = (int) g.world.range(1, 3); c.hd = c.m; c.ct = 2; }
    g.ops.push(create_op(0, c));
    if (g.plan.chance(1, 3)) { Json p0 = put_op(g, 0, 0, c); g.ops.push(p0); }  // a previous version, so STALE/TORN have old bytes
    Json p = put_op(g, 0, 0, c); if (g.ops.size() > 1) p.set("len", g.ops.a.back()["len"].num());
    if (special_crc) p.set("len", (i64) (2 * g.data.range(4, 300))).set("pat", g.data.chance(1, 2) ? 5 : 6);
    g.ops.push(p);
    int n = c.n(), tol = tolerance(c);
    int rounds = (int) g.plan.range(2, 5);
    for (int i = 0; i < rounds; i++) {
        Rng &r = g.faults;
        // survivors S, damaged subset B
        int lost = (int) r.range(0, tol);
        u64 S = full(n) & ~random_subset(r, n, lost);
        if (r.chance(1, 3)) S = full(n);                       // all data fragments delivered: the no-decode fast path
        int nb; unsigned x = (unsigned) r.below(10);
        int room = tol - (n - __builtin_popcountll(S));
        if (x < 6) nb = (int) r.range(1, std::max(1, room)); else if (x < 8) nb = room + 1; else nb = (int) r.range(1, 3);
        std::vector<int> sv; for (int b = 0; b < n; b++) if ((S >> b) & 1) sv.push_back(b);
        r.shuffle(sv);
        if (r.chance(1, 2)) std::stable_sort(sv.begin(), sv.end(), [&](int a, int b) { return (a < c.k) > (b < c.k); });  // damage data first
        Json dl = delivery(g, S, n, r.chance(1, 2));
        for (int q = 0; q < nb && q < (int) sv.size(); q++) {
            Json fx; unsigned y = (unsigned) r.below(10);
            if (y < 6) {
                fx = payload_damage(g, 80 + 64);
                // ... in a fragment stamped by an old writer (no metadata checksum then; the payload checksum is all it has), or sealed the historical way
                if (r.chance(1, 5)) { static const u32 ov[] = {0x010000, 0x010009, 0x010101, 0x0101ff, 0x010100, 0x000001}; fx.push(fx_field("libver", ov[r.below(6)], (int) r.below(3))); }
                else if (r.chance(1, 8)) fx.push(fx1("legacyseal"));
            }
            else if (y < 8) { fx = Json::arr(); static const char *fl[] = {"idx", "beid", "bever"}; const char *f = fl[r.below(3)];
                static const i64 bigidx[] = {0x7fffffffLL, 0x80000000LL, 0x80000001LL, 0xffffffffLL, 0xfffffffeLL, 255, 32, 33};
                i64 v = !strcmp(f, "idx") ? (r.chance(1, 2) ? n + (i64) r.range(0, 3) : bigidx[r.below(8)]) : !strcmp(f, "beid") ? (c.be + 1 + (i64) r.below(5)) % 256 : 0x010001 + (i64) r.below(3);
                fx.push(fx_field(f, v, (int) r.range(1, 2))); }
            else if (y < 9) { fx = Json::arr(); Json f = fx1("misdirect"); f.set("obj", 1).set("dev", (i64) r.below(n)); fx.push(f); }
            else fx = header_damage(g, 0, false);
            if (r.chance(1, 4)) {
                // damage that leaves the fragment valid: it must still be used (stored mismatch flag on an intact payload,
                // older writer version, padding bits, historical CRC seal)
                fx = Json::arr(); unsigned z = (unsigned) r.below(5);
                if (z == 0) fx.push(fx_field("mismatch", 1, (int) r.range(1, 2)));
                else if (z == 1) { static const u32 ov[] = {0x010200, 0x010300, 0x010603, 0x010100, 0x010000}; fx.push(fx_field("libver", ov[r.below(5)], (int) r.below(3))); }
                else if (z == 2) fx.push(fx_flip((i64) (ref::OFF_PAD * 8 + r.below(72))));
                else if (z == 3) fx.push(fx1("legacyseal"));
                else fx.push(fx_field("mismatch", 0, 2));
            }
            unsigned which = (unsigned) r.below(3);
            if (dl.a.size() > 1000 && which == 0) which = 1 + (unsigned) r.below(2);   // (an enormous list: one damaged copy, the repeats stay the same buffer)
            // with duplicated delivery: all copies damaged / only the first (a good one later) / only the last (a good one first)
            if (which == 2) { for (size_t z = dl.a.size(); z-- > 0;) if (dl.a[z]["dev"].in() == sv[q]) { dl.a[z].set("fx", fx); dl.a[z].erase("same"); break; } }
            else for (auto &e : dl.a) if (e["dev"].in() == sv[q]) { e.set("fx", fx); e.erase("same"); if (which == 1) break; }
        }
        // the flag is an int: any non-zero value asks for the checks
        static const int forces[] = {1, 1, 1, 1, 1, 2, 0x100, -2, INT_MIN, 0x7fffffff, -1, 0x10000};
        Json j = mk("GET"); j.set("obj", 0).set("slot", 0).set("force", r.chance(9, 10) ? forces[r.below(12)] : 0).set("dl", dl);
        maybe_slack(r, j, 8);
        g.ops.push(j);
    }
}

#include "gen_hist.inc"   // C13..C18 generators (same translation unit: they share the helpers above)

Json gen_plan(const std::string &prop, const std::string &tier, u64 base_seed, u64 index) {
    u64 rs = mix_seed(base_seed, prop, index);
    G g(rs, prop, tier, index);
    Json plan = Json::obj();
    plan.set("prop", prop).set("tier", tier).set("base_seed", (i64) base_seed).set("index", (i64) index).set("run_seed", hex64(rs));
    plan.set("xor", (index & 1) ? "portable" : "sse2");
    if ((index & 3) == 2 || prop == "C05") plan.set("stack_kb", 768);   // a quarter of the runs (all of C05's) execute on a small stack (callers with small thread stacks exist)
    { Json ik = Json::obj(); ik.set("clobber", (int) g.world.below(2)).set("layout", (int) g.world.below(2)); plan.set("isal", ik); }   // stub behaviour for this run
    if (prop == "C01" || prop == "C03") gen_roundtrip(g, false);
    else if (prop == "C19") { if (index % 4 == 3) gen_c06(g, true); else gen_roundtrip(g, true); }
    else if (prop == "C02") gen_c02(g);
    else if (prop == "C05") gen_c05(g, base_seed);
    else if (prop == "C06") gen_c06(g, false);
    else if (prop == "C09") gen_c09(g);
    else if (prop == "C10") gen_c10(g);
    else if (prop == "C11") gen_c11(g);
    else if (prop == "C12") gen_c12(g);
    else if (prop == "C20") gen_c20(g);
    else if (prop == "C18") gen_threads(g, plan);
    else gen_history(g);
    {
        // enormous delivery lists are only paired with small objects: with forced checks every entry costs a CRC over its
        // payload, and 10^5 entries x megabyte fragments is hours of legitimate work that the watchdog would call a hang
        i64 maxlen = 0;
        for (auto &o : g.ops.a) if (o["op"].str() == "PUT") maxlen = std::max(maxlen, o["len"].num());
        if (maxlen > 16384)
            for (auto &o : g.ops.a) if (o.has("dl") && o["dl"].size() > 1000) { Json cut = Json::arr(); for (size_t i = 0; i < 40; i++) cut.push(o["dl"][i]); o.set("dl", cut); }
    }
    if (g.cells.size()) plan.set("cells", g.cells);
    if (!plan.has("threads")) plan.set("ops", g.ops);   // thread plans set their own set-up "ops"
    return plan;
}

// non-trivial: at least one attached fault, or a delivery that is not the full in-order stripe, or >= 2 interacting ops on one object
bool plan_nontrivial(const Json &plan) {
    if (plan.has("threads")) return true;
    const Json &ops = plan["ops"];
    int data_ops = 0;
    for (size_t i = 0; i < ops.size(); i++) {
        const Json &o = ops[i];
        const std::string &k = o["op"].str();
        if (o.has("bfail") || o.has("store") || o.has("env") || k == "ENV" || k == "BADCALL" || k == "USEDEAD" || k == "SETCTR") return true;
        if (o.has("fx") && o["fx"].size()) return true;
        if (o.has("twin")) return true;
        if (k == "CREATE" && o.has("expect") && o["expect"].in() == 0) return true;
        if (k == "PLAN") return true;
        const Json &dl = o["dl"];
        int last = -1;
        for (size_t j = 0; j < dl.size(); j++) {
            if (dl[j].has("fx") && dl[j]["fx"].size()) return true;
            if (dl[j]["al"].in(16) != 16) return true;
            if (dl[j]["dev"].in() != last + 1) return true;
            last = dl[j]["dev"].in();
        }
        if (k == "GET" || k == "REPAIR" || k == "SCRUB" || k == "VSM") data_ops++;
    }
    return data_ops >= 2;
}
