// Deterministic scheduler for threaded runs (C18, thread part of C15).
// Client tasks are real pthreads; exactly one runs at a time, the others are parked on private futex words.
// Control returns here at yield points: before every operation, at every library lock operation (redirected by
// --wrap: the simulator *is* the lock), and at the guarded hook sites inside the library.  A seeded strategy picks
// the next runnable task; every decision is recorded, so one seed is one interleaving and a recorded decision list
// replays it exactly.  A vector-clock detector judges the annotated shared-state accesses.
#include "sim.h"
#include <pthread.h>
#include <atomic>
#include <map>
#include <algorithm>

void baton_park(std::atomic<int> *w);
void baton_wake(std::atomic<int> *w);

typedef std::vector<u32> VC;
static void vc_join(VC &a, const VC &b) { if (a.size() < b.size()) a.resize(b.size(), 0); for (size_t i = 0; i < b.size(); i++) a[i] = std::max(a[i], b[i]); }

struct Task {
    int id = 0;
    std::atomic<int> wake{0};
    enum St { READY, BLOCKED, DONE } st = READY;
    void *wait_lock = nullptr;
    int wait_excl = 0;
    int wait_event = -1;   // blocked in WAIT (the caller's own hand-over between its threads), not on a library lock
    VC vc;
    pthread_t th;
    const Json *ops = nullptr;
    int base_index = 0;
};
struct LockSt { int writer = -1; std::map<int, int> readers; VC vc; };
struct Shadow { int wtid = -1; u32 wclk = 0; std::string wsite; VC rclk; std::string rsite; };

struct Sched {
    World *W = nullptr;
    std::vector<Task *> tasks;
    std::map<void *, LockSt> locks;
    std::map<int, VC> events;        // signalled events (caller-level hand-over: a semaphore post/wait pair), with the signaller's clock
    pthread_mutex_t ev_mu = PTHREAD_MUTEX_INITIALIZER;   // taken around signal and wake-up so that ThreadSanitizer sees the hand-over edge too
    std::map<const void *, Shadow> shadow;
    Rng rng;
    std::string strategy = "random";
    int sticky_pct = 80;
    std::vector<int> prio; std::vector<u64> change_points; int low_prio = -1;   // pct
    std::vector<u64> preempt_points;                                            // rtc
    std::vector<int> decisions;      // recorded
    std::vector<int> replay; size_t rpos = 0; bool have_replay = false;
    u64 yields = 0, budget = 50000, switches = 0;
    bool free_run = false;           // after a deadlock / livelock verdict: let everything finish
    bool writer_pref = false;        // rwlock policy of this run: POSIX leaves it open whether a waiting writer holds back new readers
    std::atomic<int> main_wake{0};
    int ntasks() const { return (int) tasks.size(); }
};
static Sched *S = nullptr;
static thread_local int t_tid = -1;

bool sched_active() { return S != nullptr && t_tid >= 0; }

static std::vector<int> runnable(int exclude = -1) {
    std::vector<int> r;
    for (auto *t : S->tasks) if (t->st == Task::READY && t->id != exclude) r.push_back(t->id);
    return r;
}

// pick the task to run next; me = calling task (or -1), me_ok = whether the caller itself may continue
static int choose(int me, bool me_ok) {
    std::vector<int> r = runnable(me_ok ? -1 : me);
    if (r.empty()) return -1;
    int pick;
    bool me_run = me_ok && me >= 0 && S->tasks[me]->st == Task::READY;
    u64 step = S->yields;
    if (S->free_run) pick = me_run ? me : r[0];
    else if (S->have_replay) {
        if (S->rpos < S->replay.size()) {
            int d = S->replay[S->rpos++];
            if (d < 0) pick = me_run ? me : r[0];
            else { int c = d % S->ntasks(); pick = (std::find(r.begin(), r.end(), c) != r.end()) ? c : r[(size_t) d % r.size()]; }
        } else pick = me_run ? me : r[0];
    } else if (S->strategy == "sticky") {
        pick = (me_run && S->rng.below(100) < (u64) S->sticky_pct) ? me : r[S->rng.below(r.size())];
    } else if (S->strategy == "pct") {
        if (me >= 0 && std::find(S->change_points.begin(), S->change_points.end(), step) != S->change_points.end()) S->prio[me] = S->low_prio--;
        pick = r[0];
        for (int c : r) if (S->prio[c] > S->prio[pick]) pick = c;
    } else if (S->strategy == "rtc") {
        bool pre = std::find(S->preempt_points.begin(), S->preempt_points.end(), step) != S->preempt_points.end();
        if (me_run && !pre) pick = me;
        else { std::vector<int> o; for (int c : r) if (c != me) o.push_back(c); pick = o.empty() ? r[0] : o[S->rng.below(o.size())]; }
    } else pick = r[S->rng.below(r.size())];
    S->decisions.push_back(pick);
    S->W->trace.add("sched", pick);
    return pick;
}

static void switch_to(Task &me, int next) {
    if (next == me.id) return;
    S->switches++;
    baton_wake(&S->tasks[next]->wake);
    baton_park(&me.wake);
}

static void deadlock_verdict(const char *what) {
    // tasks parked in WAIT with nobody left to signal are released first: that is the plan's affair, not the library's
    bool released = false;
    for (auto *t : S->tasks) if (t->st == Task::BLOCKED && t->wait_event >= 0) { t->st = Task::READY; S->events[t->wait_event]; released = true; }
    if (released) { S->W->probe("sched.wait-never-signalled"); return; }
    if (!S->free_run) {
        S->W->viol("C18 C15", std::string("scheduler/") + what, std::string(what) + ": no task can make progress while some are unfinished (lock never released?)");
        S->free_run = true;
    }
    for (auto *t : S->tasks) if (t->st == Task::BLOCKED) t->st = Task::READY;
}

static void yield_point(const char *site) {
    Task &me = *S->tasks[t_tid];
    S->yields++; S->W->steps++;
    if (S->yields > S->budget && !S->free_run) {
        S->W->viol("C18", "scheduler/yield-budget-exceeded", "an operation did not complete within the yield budget once scheduled (livelock?)");
        S->free_run = true;
    }
    int next = choose(me.id, true);
    if (next >= 0) switch_to(me, next);
}

int sched_lock(void *l, int excl) {
    Task &me = *S->tasks[t_tid];
    yield_point("lock");
    for (;;) {
        LockSt &L = S->locks[l];
        bool mine_r = L.readers.count(me.id) != 0;
        bool free = excl ? (L.writer < 0 && (L.readers.empty() || (L.readers.size() == 1 && mine_r))) : (L.writer < 0 || L.writer == me.id);
        if (!excl && free && S->writer_pref)   // writer-preferring, non-recursive: a queued writer blocks every new read lock, a nested one included
            for (auto *t : S->tasks) if (t != &me && t->st == Task::BLOCKED && t->wait_lock == l && t->wait_excl) { free = false; break; }
        if (free || S->free_run) {
            if (excl) L.writer = me.id; else L.readers[me.id]++;
            vc_join(me.vc, L.vc);
            S->W->trace.add(excl ? "lock.w" : "lock.r", me.id);
            return 0;
        }
        me.st = Task::BLOCKED; me.wait_lock = l; me.wait_excl = excl;
        int next = choose(me.id, false);
        if (next < 0) { deadlock_verdict("deadlock"); continue; }
        switch_to(me, next);
        me.st = Task::READY; me.wait_lock = nullptr;
    }
}
int sched_trylock(void *l, int excl) {
    Task &me = *S->tasks[t_tid];
    yield_point("trylock");
    LockSt &L = S->locks[l];
    bool free = excl ? (L.writer < 0 && L.readers.empty()) : (L.writer < 0);
    if (!free) return 16 /* EBUSY */;
    if (excl) L.writer = me.id; else L.readers[me.id]++;
    vc_join(me.vc, L.vc);
    return 0;
}
int sched_unlock(void *l) {
    Task &me = *S->tasks[t_tid];
    LockSt &L = S->locks[l];
    vc_join(L.vc, me.vc);
    me.vc[me.id]++;
    if (L.writer == me.id) L.writer = -1;
    else { auto it = L.readers.find(me.id); if (it != L.readers.end() && --it->second <= 0) L.readers.erase(it); }
    for (auto *t : S->tasks) if (t->st == Task::BLOCKED && t->wait_lock == l) t->st = Task::READY;
    // (readers held back by a queued writer are woken too; they re-check and block again if the writer is still waiting)
    S->W->trace.add("unlock", me.id);
    yield_point("unlock");
    return 0;
}

// --- caller-level hand-over between tasks ("thread B destroys the instance after thread A is done with it")
void sched_signal(int e) {
    if (!sched_active()) return;
    Task &me = *S->tasks[t_tid];
    pthread_mutex_lock(&S->ev_mu);
    VC &v = S->events[e]; vc_join(v, me.vc); me.vc[me.id]++;
    pthread_mutex_unlock(&S->ev_mu);
    for (auto *t : S->tasks) if (t->st == Task::BLOCKED && t->wait_event == e) t->st = Task::READY;
    S->W->trace.add("signal", e);
    yield_point("signal");
}
void sched_wait(int e) {
    if (!sched_active()) return;
    Task &me = *S->tasks[t_tid];
    yield_point("wait");
    while (!S->events.count(e) && !S->free_run) {
        me.st = Task::BLOCKED; me.wait_event = e;
        int next = choose(me.id, false);
        if (next < 0) { me.st = Task::READY; me.wait_event = -1; S->W->probe("sched.wait-never-signalled"); return; }   // nobody left to signal (e.g. a minimised plan): not a verdict about the library
        switch_to(me, next);
        me.st = Task::READY; me.wait_event = -1;
    }
    pthread_mutex_lock(&S->ev_mu);
    if (S->events.count(e)) vc_join(me.vc, S->events[e]);
    pthread_mutex_unlock(&S->ev_mu);
    S->W->trace.add("waited", e);
}

// --- vector-clock race detector over annotated shared state
static std::string objname(const char *site) { std::string s = site ? site : "?"; size_t p = s.find(':'); return p == std::string::npos ? s : s.substr(0, p); }
static void race_check(bool write, const void *obj, const char *site) {
    Task &me = *S->tasks[t_tid];
    Shadow &sh = S->shadow[obj];
    if (sh.rclk.size() < (size_t) S->ntasks()) sh.rclk.resize(S->ntasks(), 0);
    auto hb = [&](int tid, u32 clk) { return tid == me.id || clk <= me.vc[tid]; };
    std::string nm = objname(site);
    if (sh.wtid >= 0 && !hb(sh.wtid, sh.wclk))
        S->W->viol("C18", "data-race/" + nm + "/" + (write ? "write-write" : "write-read"),
                   std::string(write ? "write" : "read") + " at " + (site ? site : "?") + " is unordered with the write at " + sh.wsite + " by another thread");
    if (write) {
        for (int t = 0; t < S->ntasks(); t++)
            if (sh.rclk[t] && !hb(t, sh.rclk[t])) {
                S->W->viol("C18", "data-race/" + nm + "/read-write", std::string("write at ") + (site ? site : "?") + " is unordered with a read at " + sh.rsite + " by another thread");
                break;
            }
        sh.wtid = me.id; sh.wclk = me.vc[me.id]; sh.wsite = site ? site : "?";
        std::fill(sh.rclk.begin(), sh.rclk.end(), 0);
    } else { sh.rclk[me.id] = me.vc[me.id]; sh.rsite = site ? site : "?"; }
}

extern "C" __attribute__((visibility("default"))) void liberasurecode_verif_hook(int kind, const void *obj, const char *site) {
    if (!sched_active()) return;
    if (kind == 2) { yield_point(site); return; }
    if (kind == 3) {  // object about to be freed: a write to it, then its shadow state is dropped
        yield_point(site);
        race_check(true, obj, site);
        const char *b = (const char *) obj;
        for (auto it = S->shadow.begin(); it != S->shadow.end();) {
            const char *a = (const char *) it->first;
            if (a >= b && a < b + sizeof(struct ec_backend)) it = S->shadow.erase(it); else ++it;
        }
        return;
    }
    yield_point(site);
    race_check(kind == 1, obj, site);
    S->W->probe(std::string("hook.") + objname(site));
}

static void *task_main(void *arg) {
    Task &me = *(Task *) arg;
    t_tid = me.id; cur().tid = me.id;
    baton_park(&me.wake);
    const Json &ops = *me.ops;
    for (size_t i = 0; i < ops.size(); i++) {
        yield_point("op");
        exec_op(*S->W, ops[i], me.base_index + (int) i);
        for (auto &kv : S->locks)
            if (kv.second.writer == me.id || kv.second.readers.count(me.id)) {
                S->W->viol("C18 C17", "lock/held-after-return", "a library lock is still held by the calling thread after the public call returned");
                if (kv.second.writer == me.id) kv.second.writer = -1;
                kv.second.readers.erase(me.id);
                for (auto *t : S->tasks) if (t->st == Task::BLOCKED && t->wait_lock == kv.first) t->st = Task::READY;
            }
    }
    me.st = Task::DONE;
    S->W->trace.add("done", me.id);
    // hand the baton on
    for (;;) {
        std::vector<int> r = runnable();
        if (!r.empty()) { int next = choose(me.id, false); baton_wake(&S->tasks[next]->wake); break; }
        bool blocked = false; for (auto *t : S->tasks) if (t->st == Task::BLOCKED) blocked = true;
        if (blocked) { deadlock_verdict("deadlock"); continue; }
        baton_wake(&S->main_wake);
        break;
    }
    t_tid = -1;
    return nullptr;
}

void run_threaded(World &W, const Json &plan) {
    // sequential set-up phase (shared instances and objects)
    const Json &setup = plan["ops"];
    for (size_t i = 0; i < setup.size(); i++) exec_op(W, setup[i], (int) i);
    const Json &th = plan["threads"];
    if (th.size() == 0) return;
    W.threaded = true;
    Sched sc; S = &sc; sc.W = &W;
    const Json &cfg = plan["sched"];
    sc.rng.seed((u64) cfg["seed"].num(1));
    sc.strategy = cfg["strategy"].str().empty() ? "random" : cfg["strategy"].str();
    sc.sticky_pct = cfg["sticky"].in(80);
    sc.budget = (u64) cfg["budget"].num(50000);
    if (cfg.has("decisions")) { sc.replay = cfg["decisions"].intvec(); sc.have_replay = true; }
    sc.writer_pref = cfg["wpref"].in(0) != 0;
    int n = (int) th.size();
    for (int i = 0; i < n; i++) {
        Task *t = new Task(); t->id = i; t->ops = &th[i]; t->base_index = 1000 * (i + 1); t->vc.assign(n, 0); t->vc[i] = 1;
        sc.tasks.push_back(t);
    }
    if (sc.strategy == "pct") {
        sc.prio.resize(n); for (int i = 0; i < n; i++) sc.prio[i] = i + 1;
        sc.rng.shuffle(sc.prio);
        int d = cfg["depth"].in(2); u64 est = (u64) cfg["est"].num(300);
        for (int i = 0; i + 1 < d; i++) sc.change_points.push_back(1 + sc.rng.below(est));
    } else if (sc.strategy == "rtc") {
        int c = cfg["preempt"].in(2); u64 est = (u64) cfg["est"].num(300);
        for (int i = 0; i < c; i++) sc.preempt_points.push_back(1 + sc.rng.below(est));
    }
    pthread_attr_t at; pthread_attr_init(&at); pthread_attr_setstacksize(&at, 1 << 20);
    for (auto *t : sc.tasks) pthread_create(&t->th, &at, task_main, t);
    int first = choose(-1, false);
    baton_wake(&sc.tasks[first]->wake);
    baton_park(&sc.main_wake);
    for (auto *t : sc.tasks) pthread_join(t->th, nullptr);
    pthread_attr_destroy(&at);
    // results for the evidence / replay file
    W.sched_yields = sc.yields; W.sched_switches = sc.switches; W.sched_decisions = sc.decisions;
    W.trace.add("yields", (i64) sc.yields);
    for (auto *t : sc.tasks) delete t;
    S = nullptr;
    W.threaded = false;
}
