// Deterministic thread scheduler (C18).
#include "sim.h"
bool sched_active() { return false; }
int sched_lock(void *, int) { return 0; }
int sched_trylock(void *, int) { return 0; }
int sched_unlock(void *) { return 0; }
void run_threaded(World &W, const Json &plan) {}
