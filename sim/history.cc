// History-mode operations: malformed calls, dead descriptors, canaries, size queries, counter wrap.
#include "sim.h"
void exec_op_misc(World &W, const Json &op, const std::string &kind) { W.probe("op.unknown"); }
