// History-mode operations: malformed calls inside live histories (BADCALL), dead descriptors, full use
// cycles of accepted instances (CYCLE), canaries (CANARY), descriptor counter presets (SETCTR),
// ISA-L stub knobs (ISAL).
#include "sim.h"
#include <dlfcn.h>
#include <limits.h>

extern "C" {
extern int next_backend_desc __attribute__((weak));
}

static bool refused(const std::string &api, long rc) {
    if (api == "is_invalid_fragment") return rc != 0;   // documented failure value is 1; any non-zero verdict is a refusal
    if (api == "backend_available") return rc == 0;
    return rc < 0;
}

static int pick_desc(World &W, const Slot &s, const std::string &dm, int var, bool *ok) {
    *ok = true;
    if (dm == "live") { if (!s.live) *ok = false; return s.desc; }
    if (dm == "next") { if (!&next_backend_desc) { *ok = false; return 0; } int d = next_backend_desc + 1 + (var & 1); if (W.live_descs.count(d)) *ok = false; return d; }   // a descriptor nobody has been given (yet)
    if (dm == "last") { if (s.live || s.desc <= 0) *ok = false; return s.desc; }   // the descriptor this slot had before it was destroyed
    if (dm == "dead") {
        if (W.dead_descs.empty()) { *ok = false; return -1; }
        auto it = W.dead_descs.begin(); std::advance(it, (size_t) var % W.dead_descs.size());
        return *it;
    }
    static const int never[] = {0, -1, INT_MAX, INT_MIN, 0x7ffffff0, 99999, -204, 1 << 20};
    for (int i = 0; i < 8; i++) { int d = never[(var + i) & 7]; if (!W.live_descs.count(d)) return d; }
    *ok = false; return 0;
}

// a template stripe for the slot (so that "all other arguments valid" really is valid)
static const Obj *template_obj(World &W, const Slot &s) {
    for (auto &o : W.objs) if (o.valid && s.live && o.cfg.same(s.cfg) && !o.orig.empty()) return &o;
    return nullptr;
}

static void op_badcall(World &W, const Json &op) {
    Slot &s = W.slots[(size_t) op["slot"].num() % World::NSLOT];
    const std::string api = op["api"].str();
    const std::string dm = op["dm"].str().empty() ? "live" : op["dm"].str();
    int mask = op["mask"].in(0), var = op["var"].in(0);
    bool ok; int desc = pick_desc(W, s, dm, var, &ok);
    if (!ok) { W.probe("badcall.skipped-no-descriptor"); return; }
    bool desc_bad = dm != "live";
    bool racing_desc = dm == "next";   // valid or not depends on whether another thread's create completes first: only "no fault" is demanded
    const Obj *t = s.live ? template_obj(W, s) : nullptr;
    // synthetic template when the slot has no stripe (dead / never descriptors still need plausible other arguments)
    Obj synth;
    if (!t) {
        for (auto &o : W.objs) if (o.valid && !o.orig.empty()) { t = &o; break; }
        if (!t) {
            synth.valid = true; synth.cfg.k = 2; synth.cfg.m = 1; synth.flen = 96; synth.data.assign(32, 7);
            synth.orig.assign(3, std::vector<u8>(96, 0)); synth.dev = synth.orig; t = &synth;
        }
    }
    int n = (int) t->orig.size(), k = t->cfg.k > 0 ? t->cfg.k : 1;
    cur().api = api;
    W.fault(desc_bad ? (dm == "dead" || dm == "last" ? "USE_DEAD" : "BAD_DESC") : "BADCALL");
    size_t live0 = own::live();
    long rc = 0; bool judged = desc_bad || mask != 0; bool noop_ok = false;
    std::vector<char *> fr;
    for (int i = 0; i < n; i++) fr.push_back((char *) thread_arena().place(t->orig[i].data(), t->orig[i].size(), Arena::RIGHT));
    static const int bad_nums[] = {INT_MIN, -1, 0, -7};
    static const u64 bad_lens[] = {0, 1, 79, 40};
    if (api == "encode") {
        char **ed = nullptr, **ep = nullptr; u64 fl = 0;
        char *in = (char *) thread_arena().place(t->data.data(), t->data.size(), Arena::RIGHT);
        rc = liberasurecode_encode(desc, (mask & 1) ? nullptr : in, t->data.size(), (mask & 2) ? nullptr : &ed, (mask & 4) ? nullptr : &ep, (mask & 8) ? nullptr : &fl);
        if (rc == 0) { liberasurecode_encode_cleanup(desc, ed, ep); }
        else if ((ed && own::owns(ed)) || (ep && own::owns(ep))) W.viol("C13 C16", "encode/error-left-output-pointers", "encode failed but left allocated arrays in the output pointers");
    } else if (api == "encode_cleanup") {
        // valid descriptor + NULL buffers is a legitimate no-op (free(NULL)); only "no crash, nothing retained" is judged
        rc = liberasurecode_encode_cleanup(desc, nullptr, nullptr);
        if (!desc_bad) noop_ok = true;
    } else if (api == "decode") {
        char *out = nullptr; u64 ol = 0;
        int num = (mask & 2) ? ((var & 4) ? k - 1 : bad_nums[var & 3]) : n;
        u64 fl = (mask & 4) ? bad_lens[var & 3] : t->flen;
        // a NULL entry inside the list (a caller marking a missing fragment that way): refusing it and skipping it are both
        // acceptable, so only "no crash, nothing retained" is judged when that is the call's only oddity
        if (mask & 32) { fr[(size_t) var % fr.size()] = nullptr; if (mask == 32 && !desc_bad) judged = false; }
        rc = liberasurecode_decode(desc, (mask & 1) ? nullptr : fr.data(), num, fl, (var >> 3) & 1, (mask & 8) ? nullptr : &out, (mask & 16) ? nullptr : &ol);
        if (rc == 0 && out) liberasurecode_decode_cleanup(desc, out);
        if (rc == 0 && !desc_bad && mask == 2 && num == k - 1 && k - 1 >= 1) { /* fewer than k fragments must not decode */ }
    } else if (api == "decode_cleanup") {
        rc = liberasurecode_decode_cleanup(desc, nullptr);
        if (!desc_bad) noop_ok = true;
    } else if (api == "reconstruct") {
        u8 *out = thread_arena().place(nullptr, t->flen ? t->flen : 96, Arena::RIGHT, true);
        int num = (mask & 2) ? bad_nums[var & 3] : n - 1;
        u64 fl = (mask & 4) ? bad_lens[var & 3] : t->flen;
        static const int bad_dest[] = {-1, 0, 1, INT_MAX, INT_MIN, 64, 1000};
        int bd = bad_dest[(var >> 2) % 7]; if (bd == 0 || bd == 1) bd += s.live ? s.cfg.n() : n;
        int dest = (mask & 8) ? bd : n - 1;
        // fr without the last fragment so that the destination is genuinely missing
        if (mask & 32) { fr[(size_t) var % (fr.size() > 1 ? fr.size() - 1 : 1)] = nullptr; if (mask == 32 && !desc_bad) judged = false; }   // a NULL entry inside the list
        rc = liberasurecode_reconstruct_fragment(desc, (mask & 1) ? nullptr : fr.data(), num, fl, dest, (mask & 16) ? nullptr : (char *) out);
    } else if (api == "fragments_needed") {
        // mask 8 / 16: an index outside 0..k+m-1 in the rebuild / exclude list (the lists are -1 terminated, so only values >= k+m)
        int nn = s.live ? s.cfg.n() : n;
        static const int big[] = {0, 1, 2, 32, 33, 63, 64, 65, 100, 1000, 1000000, INT_MAX, INT_MAX - 1, 1 << 30, 255, 31};
        int bad = big[var & 15]; if (bad < 3) bad += nn; if (bad < nn) bad = nn;
        std::vector<int> R = {0, -1}, X = {-1}, N((size_t) n + 70, 0);
        if (mask & 8) { if (var & 4) R = {bad, -1}; else R = {0, bad, -1}; }
        if (mask & 16) { if (var & 2) X = {1 % nn, bad, -1}; else X = {bad, -1}; }
        int *Rp = (int *) thread_arena().place((u8 *) R.data(), R.size() * 4, Arena::RIGHT), *Xp = (int *) thread_arena().place((u8 *) X.data(), X.size() * 4, Arena::RIGHT);
        rc = liberasurecode_fragments_needed(desc, (mask & 1) ? nullptr : Rp, (mask & 2) ? nullptr : Xp, (mask & 4) ? nullptr : N.data());
    } else if (api == "get_fragment_metadata") {
        fragment_metadata_t md; memset(&md, 0, sizeof md);
        if (mask == 0) mask = 1;
        judged = true;
        rc = liberasurecode_get_fragment_metadata((mask & 1) ? nullptr : fr[0], (mask & 2) ? nullptr : &md);
    } else if (api == "is_invalid_fragment") {
        rc = is_invalid_fragment(desc, (mask & 1) ? nullptr : fr[0]);
    } else if (api == "verify_stripe_metadata") {
        int num = (mask & 2) ? bad_nums[var & 3] : n;
        if (mask & 4) { fr[(size_t) var % fr.size()] = nullptr; if (mask == 4 && !desc_bad) judged = false; }   // a NULL entry inside the list
        rc = liberasurecode_verify_stripe_metadata(desc, (mask & 1) ? nullptr : fr.data(), num);
    } else if (api == "get_aligned_data_size") {
        rc = liberasurecode_get_aligned_data_size(desc, (u64) (var * 37 + 1)); judged = desc_bad;
    } else if (api == "get_minimum_encode_size") {
        rc = liberasurecode_get_minimum_encode_size(desc); judged = desc_bad;
    } else if (api == "get_fragment_size") {
        rc = liberasurecode_get_fragment_size(desc, var * 37 + 1); judged = desc_bad;
    } else if (api == "instance_destroy") {
        judged = desc_bad;
        if (!desc_bad) { thread_arena().release_all(); return; }   // destroying a live slot is DESTROY's job
        rc = liberasurecode_instance_destroy(desc);
    } else if (api == "backend_available") {
        static const int ids[] = {EC_BACKENDS_MAX, EC_BACKENDS_MAX + 1, 255, -1, INT_MAX, 1000};
        rc = liberasurecode_backend_available((ec_backend_id_t) ids[var % 6]); judged = true;
    } else if (api == "instance_create") {
        struct ec_args a; memset(&a, 0, sizeof a); a.k = 4; a.m = 2; a.hd = 2; a.ct = CHKSUM_NONE;
        static const int ids[] = {EC_BACKENDS_MAX, EC_BACKENDS_MAX + 1, 255, -1, INT_MAX, 1000};
        int id = (mask & 1) ? ids[var % 6] : EC_BACKEND_LIBERASURECODE_RS_VAND;
        rc = liberasurecode_instance_create((ec_backend_id_t) id, (mask & 2) ? nullptr : &a); judged = mask != 0;
        if (rc > 0) { liberasurecode_instance_destroy((int) rc); }
    } else { W.probe("badcall.unknown-api"); thread_arena().release_all(); return; }
    W.trace.add("badcall.rc", rc);
    if (racing_desc) judged = false;
    if (judged) {
        const char *what = desc_bad ? (dm == "dead" || dm == "last" ? "dead-descriptor" : "unknown-descriptor") : "invalid-argument";
        if (noop_ok) W.probe("badcall.cleanup-noop");
        else if (!refused(api, rc)) W.viol(desc_bad ? "C13 C14 C18" : "C13", api + "/" + what + "-accepted", api + " with " + what + " (mask " + std::to_string(mask) + ", variant " + std::to_string(var) + ") returned " + std::to_string(rc));
        else W.probe(std::string("badcall.refused.") + what);
        if (leaked(W, live0)) W.viol("C13 C16", api + "/refused-call-retained-memory", api + " refused the call but kept " + std::to_string((long) own::live() - (long) live0) + " block(s)");
    }
    thread_arena().release_all();
}

// full use cycle of an instance that creation accepted: must run without arithmetic or memory faults (C13),
// and round-trip for the coded backends
static void op_cycle(World &W, const Json &op) {
    Slot &s = W.slots[(size_t) op["slot"].num() % World::NSLOT];
    if (!s.live) return;
    u64 len = (u64) op["len"].num(100);
    int k = s.cfg.k, m = s.cfg.m, n = k + m;
    std::vector<u8> data(len); Rng r((u64) op["dseed"].num(1)); for (auto &b : data) b = (u8) r.next();
    cur().api = "size-queries";
    long a = liberasurecode_get_aligned_data_size(s.desc, len), mn = liberasurecode_get_minimum_encode_size(s.desc), fs = liberasurecode_get_fragment_size(s.desc, (int) len);
    W.trace.add("cycle.aligned", a); W.trace.add("cycle.min", mn); W.trace.add("cycle.fs", fs);
    if (a < 0 || mn < 0 || fs < 0) W.viol("C13", "cycle/size-query-failed-on-live-instance", "aligned=" + std::to_string(a) + " min=" + std::to_string(mn) + " fragsize=" + std::to_string(fs));
    char *in = (char *) thread_arena().place(data.data(), data.size(), Arena::RIGHT);
    char **ed = nullptr, **ep = nullptr; u64 fl = 0;
    size_t live0 = own::live();
    cur().api = "encode";
    int rc = liberasurecode_encode(s.desc, in, len, &ed, &ep, &fl);
    W.trace.add("cycle.enc", rc);
    if (rc != 0) { W.viol("C13", std::string("cycle/encode-failed/") + be_name(s.cfg.be), "accepted instance cannot encode: rc=" + std::to_string(rc)); thread_arena().release_all(); return; }
    std::vector<std::vector<u8>> frs;
    for (int i = 0; i < n; i++) { char *f = i < k ? ed[i] : ep[i - k]; frs.emplace_back((u8 *) f, (u8 *) f + fl); }
    liberasurecode_encode_cleanup(s.desc, ed, ep);
    bool coded = s.cfg.be == EC_BACKEND_LIBERASURECODE_RS_VAND || s.cfg.be == EC_BACKEND_FLAT_XOR_HD || be_is_isal(s.cfg.be);
    // decode from: everything, then with the maximum tolerated number of lost fragments (data first)
    int tol = s.cfg.be == EC_BACKEND_FLAT_XOR_HD ? s.cfg.hd - 1 : m;
    if (!coded) tol = 0;
    for (int round = 0; round < 2; round++) {
        int lose = round == 0 ? 0 : std::min(tol, n - 1);
        if (round == 1 && lose == 0) break;
        std::vector<char *> fr;
        for (int i = lose; i < n; i++) fr.push_back((char *) thread_arena().place(frs[i].data(), fl, (i & 1) ? Arena::RIGHT : 0));
        char *out = nullptr; u64 ol = 0;
        cur().api = "decode";
        int d = liberasurecode_decode(s.desc, fr.data(), (int) fr.size(), fl, 0, &out, &ol);
        W.trace.add("cycle.dec", d);
        bool same = d == 0 && ol == len && (len == 0 || (out && memcmp(out, data.data(), len) == 0));
        if (coded && be_is_isal(s.cfg.be) && lose) {
            u64 mask = 0; for (int i = lose; i < n; i++) mask |= 1ULL << i;
            if (!ref::isal_first_k_invertible(s.cfg.be == EC_BACKEND_ISA_L_RS_CAUCHY, k, m, mask)) { if (d == 0) liberasurecode_decode_cleanup(s.desc, out); continue; }
        }
        if (coded || lose == 0) {
            if (d != 0) W.viol("C13", std::string("cycle/decode-failed/") + be_name(s.cfg.be), "accepted instance cannot decode its own stripe (lost " + std::to_string(lose) + "): rc=" + std::to_string(d));
            else if (!same && coded) W.viol("C13", std::string("cycle/decode-wrong/") + be_name(s.cfg.be), "accepted instance decodes its own stripe to different bytes (lost " + std::to_string(lose) + ")");
        }
        if (d == 0) liberasurecode_decode_cleanup(s.desc, out);
        if (coded && lose) {
            u8 *ob = thread_arena().place(nullptr, fl, 0, true);
            cur().api = "reconstruct_fragment";
            int rr = liberasurecode_reconstruct_fragment(s.desc, fr.data(), (int) fr.size(), fl, 0, (char *) ob);
            W.trace.add("cycle.rec", rr);
            if (rr != 0) W.viol("C13", std::string("cycle/reconstruct-failed/") + be_name(s.cfg.be), "rc=" + std::to_string(rr));
            else if (memcmp(ob, frs[0].data(), fl) != 0) W.viol("C13", std::string("cycle/reconstruct-wrong/") + be_name(s.cfg.be), "fragment 0 rebuilt differently");
        }
    }
    if (leaked(W, live0)) W.viol("C13 C16", "cycle/leak", "use cycle left " + std::to_string((long) own::live() - (long) live0) + " block(s)");
    W.probe(std::string("cycle.done.") + be_name(s.cfg.be));
    thread_arena().release_all();
}

// ---------------------------------------------------------------- canaries: history independence (C15, C14, C18)
struct CanaryDef { Cfg cfg; u64 len; u64 dseed; bool legacy; };
static std::vector<CanaryDef> &canary_defs() {
    static std::vector<CanaryDef> v;
    if (v.empty()) {
        auto add = [&](int be, int k, int m, int hd, int ct, u64 len, bool lg) { CanaryDef c; c.cfg.be = be; c.cfg.k = k; c.cfg.m = m; c.cfg.hd = hd; c.cfg.ct = ct; c.len = len; c.dseed = 0xC0FFEE + v.size(); c.legacy = lg; v.push_back(c); };
        add(EC_BACKEND_LIBERASURECODE_RS_VAND, 4, 2, 2, 2, 1000, false);
        add(EC_BACKEND_LIBERASURECODE_RS_VAND, 10, 4, 4, 1, 4097, false);
        add(EC_BACKEND_LIBERASURECODE_RS_VAND, 1, 1, 1, 2, 33, true);
        add(EC_BACKEND_LIBERASURECODE_RS_VAND, 20, 12, 12, 2, 777, false);
        add(EC_BACKEND_FLAT_XOR_HD, 3, 3, 3, 2, 500, false);
        add(EC_BACKEND_FLAT_XOR_HD, 10, 5, 3, 1, 2049, false);
        add(EC_BACKEND_FLAT_XOR_HD, 12, 6, 4, 2, 90, true);
        add(EC_BACKEND_ISA_L_RS_VAND, 5, 3, 3, 2, 1234, false);
        add(EC_BACKEND_ISA_L_RS_CAUCHY, 8, 4, 4, 2, 64, false);
        add(EC_BACKEND_NULL, 4, 2, 2, 2, 300, false);
        // objects much shorter than k blocks: whole data fragments are padding, so uninitialised (history-dependent)
        // memory in them would show - on the un-sanitized flavour, where the allocator recycles dirty chunks
        add(EC_BACKEND_LIBERASURECODE_RS_VAND, 10, 4, 4, 2, 101, false);
        add(EC_BACKEND_FLAT_XOR_HD, 10, 5, 3, 2, 45, false);
        add(EC_BACKEND_ISA_L_RS_VAND, 8, 3, 3, 1, 9, false);
        add(EC_BACKEND_LIBERASURECODE_RS_VAND, 31, 1, 1, 2, 3, false);
    }
    return v;
}
static std::vector<u64> g_canary_ref;

static u64 canary_digest(int desc, const CanaryDef &c, Arena &A, bool *okp) {
    std::vector<u8> data(c.len); Rng r(c.dseed); for (auto &b : data) b = (u8) r.next();
    char *in = (char *) A.place(data.data(), data.size(), Arena::RIGHT);
    char **ed = nullptr, **ep = nullptr; u64 fl = 0;
    int rc = liberasurecode_encode(desc, in, c.len, &ed, &ep, &fl);
    *okp = rc == 0;
    if (rc != 0) return 0;
    u64 h = fnv1a(&fl, sizeof fl);
    for (int i = 0; i < c.cfg.k + c.cfg.m; i++) h = fnv1a(i < c.cfg.k ? ed[i] : ep[i - c.cfg.k], fl, h);
    liberasurecode_encode_cleanup(desc, ed, ep);
    return h;
}
static int canary_create(const CanaryDef &c) {
    struct ec_args a; memset(&a, 0, sizeof a); a.k = c.cfg.k; a.m = c.cfg.m; a.hd = c.cfg.hd; a.ct = (ec_checksum_type_t) c.cfg.ct;
    return liberasurecode_instance_create((ec_backend_id_t) c.cfg.be, &a);
}
// reference digests: computed once per process before any run, i.e. in fresh-process state
void canary_init() {
    Arena &A = thread_arena();
    for (auto &c : canary_defs()) {
#ifdef VERIF_TSAN
        // ThreadSanitizer pass: the first use of the historical CRC in this process is left to the threads of a run
        // (lazily built process-wide state would otherwise be complete before any thread starts)
        if (c.legacy) { g_canary_ref.push_back(0); continue; }
#endif
        if (c.legacy) setenv("LIBERASURECODE_WRITE_LEGACY_CRC", "1", 1); else unsetenv("LIBERASURECODE_WRITE_LEGACY_CRC");
        int d = canary_create(c); bool ok = false; u64 h = 0;
        if (d > 0) { h = canary_digest(d, c, A, &ok); liberasurecode_instance_destroy(d); }
        g_canary_ref.push_back(ok ? h : 0);
        A.release_all();
    }
    unsetenv("LIBERASURECODE_WRITE_LEGACY_CRC");
    // the descriptor counter is part of the history the canaries must not depend on; start every process from the same value
    if (&next_backend_desc) next_backend_desc = 0;
}

static void op_canary(World &W, const Json &op) {
    auto &defs = canary_defs();
    size_t ci = (size_t) op["c"].num() % defs.size();
    // the legacy-CRC switch is process-wide: threaded runs only use canaries written with the switch off and never
    // touch the environment (otherwise two canaries of different profile would disturb each other - a harness artefact)
    if (W.threaded) { bool lg = W.env_set && ref::legacy_switch(W.env_val.c_str()); while (defs[ci].legacy != lg) ci = (ci + 1) % defs.size(); }   // (the set-up may have switched it on for the whole run)
    const CanaryDef &c = defs[ci];
    if (g_canary_ref.size() <= ci || g_canary_ref[ci] == 0) { W.probe("canary.no-reference"); return; }
    bool env_was_set = W.env_set; std::string env_was = W.env_val;
    if (!W.threaded) set_env(W, c.legacy, "1");
    // prefer a live instance of the same configuration (shared-instance history), else a temporary one
    int desc = -1; bool temp = false;
    if (!W.threaded) for (auto &s : W.slots) if (s.live && s.cfg.same(c.cfg)) { desc = s.desc; break; }   // never borrow another thread's instance
    cur().api = "canary";
    if (desc < 0) {
        desc = canary_create(c); temp = true;
        if (desc <= 0) { W.viol("C14 C15 C18", "canary/create-failed", "canary configuration " + std::to_string(ci) + " could not be created: " + std::to_string(desc)); if (!W.threaded) set_env(W, env_was_set, env_was); return; }
        if (W.live_descs.count(desc)) W.viol("C14 C18", "descriptor-not-unique", "canary create returned live descriptor " + std::to_string(desc));
    }
    bool ok = false;
    u64 h = canary_digest(desc, c, thread_arena(), &ok);
    W.trace.add("canary", (i64) h);
    if (!ok) W.viol("C14 C15 C18", "canary/encode-failed", "canary " + std::to_string(ci));
    else if (h != g_canary_ref[ci]) W.viol("C14 C15 C18", std::string("canary/output-depends-on-history/") + be_name(c.cfg.be), "encode of a fixed (configuration, data) pair differs from the fresh-process result");
    else W.probe("canary.match");
    if (temp) { int rc = liberasurecode_instance_destroy(desc); if (rc != 0) W.viol("C14", "destroy-live-failed", "canary destroy rc=" + std::to_string(rc)); else W.dead_descs.insert(desc); }
    if (!W.threaded) set_env(W, env_was_set, env_was);
    thread_arena().release_all();
}

static void op_setctr(World &W, const Json &op) {
    if (!&next_backend_desc) { W.probe("unreached.next_backend_desc-not-exported"); return; }
    next_backend_desc = INT_MAX - op["back"].in(3);
    W.fault("DESC_COUNTER_PRESET");
}

struct isal_stub_ctl_t { int clobber_input, layout, fail_invert_at; long n_invert, n_fail_real, n_fail_inj, n_encode, n_init, n_gen; };
static isal_stub_ctl_t *isal_ctl() {
    static isal_stub_ctl_t *p = nullptr; static bool tried = false;
    if (!tried) { tried = true; void *h = dlopen("libisal.so.2", RTLD_LAZY | RTLD_LOCAL); if (h) p = (isal_stub_ctl_t *) dlsym(h, "isal_stub_ctl"); }
    return p;
}
static void op_isal(World &W, const Json &op) {
    isal_stub_ctl_t *c = isal_ctl();
    if (!c) { W.probe("unreached.isal-stub-ctl"); return; }
    if (op.has("clobber")) c->clobber_input = op["clobber"].in();
    // the table layout is a per-run constant (plan["isal"]): tables built under one layout must not be used under another
    if (op.has("fail_at")) { c->fail_invert_at = op["fail_at"].in(); if (c->fail_invert_at > 0) W.fault("ISAL_INVERT_FAIL.armed"); }
    W.fault("ISAL_KNOBS");
}
void isal_reset() { isal_stub_ctl_t *c = isal_ctl(); if (c) { c->clobber_input = 1; c->layout = 0; c->fail_invert_at = 0; } }
void isal_set_knobs(int clobber, int layout) { isal_stub_ctl_t *c = isal_ctl(); if (c) { c->clobber_input = clobber & 1; c->layout = layout & 1; } }
long isal_injected_failures() { isal_stub_ctl_t *c = isal_ctl(); return c ? c->n_fail_inj : 0; }

static void op_destroy_dead(World &W, const Json &op) {
    bool ok; int d = pick_desc(W, W.slots[0], op["dm"].str().empty() ? "dead" : op["dm"].str(), op["var"].in(0), &ok);
    if (!ok) return;
    cur().api = "instance_destroy";
    W.fault("DESTROY_DEAD");
    int rc = liberasurecode_instance_destroy(d);
    W.trace.add("destroy_dead.rc", rc);
    if (rc >= 0) W.viol("C14 C13", "instance_destroy/dead-descriptor-accepted", "destroy of descriptor " + std::to_string(d) + " that is not live returned " + std::to_string(rc));
}

// Many simultaneous instances: create n, optionally move the descriptor counter to just below INT_MAX part-way, destroy
// all but a few (oldest / newest / every other first), then drive the survivors through a round trip.
static void op_mass(World &W, const Json &op) {
    int n = op["n"].in(100), keep = op["keep"].in(4);
    Cfg c; c.be = op["be"].in(EC_BACKEND_LIBERASURECODE_RS_VAND); c.k = op["k"].in(4); c.m = op["m"].in(2); c.hd = op["hd"].in(c.m); c.ct = 2;
    struct ec_args a; memset(&a, 0, sizeof a); a.k = c.k; a.m = c.m; a.hd = c.hd; a.ct = (ec_checksum_type_t) c.ct;
    std::vector<int> ds;
    int wrap_at = op["wrap_at"].in(-1);
    cur().api = "instance_create(mass)";
    for (int i = 0; i < n; i++) {
        if (i == wrap_at && &next_backend_desc) { next_backend_desc = INT_MAX - op["back"].in(2); W.fault("DESC_COUNTER_PRESET"); }
        int d = liberasurecode_instance_create((ec_backend_id_t) c.be, &a);
        if (d <= 0) { W.viol("C14 C13", "mass/create-failed", "create number " + std::to_string(i) + " of " + std::to_string(n) + " simultaneous instances returned " + std::to_string(d)); break; }
        if (W.live_descs.count(d)) { W.viol("C14", "descriptor-not-unique", "create returned live descriptor " + std::to_string(d) + " (instance " + std::to_string(i) + " of " + std::to_string(n) + ")"); }
        W.live_descs.insert(d); W.dead_descs.erase(d); ds.push_back(d);
    }
    W.fault("MANY_INSTANCES");
    W.trace.add("mass.created", (i64) ds.size());
    // destroy order
    std::vector<int> order;
    int mode = op["order"].in(0);
    if (mode == 0) order = ds;                                               // oldest first
    else if (mode == 1) order.assign(ds.rbegin(), ds.rend());                // newest first
    else { for (size_t i = 0; i < ds.size(); i += 2) order.push_back(ds[i]); for (size_t i = 1; i < ds.size(); i += 2) order.push_back(ds[i]); }
    size_t ndestroy = ds.size() > (size_t) keep ? ds.size() - keep : 0;
    cur().api = "instance_destroy(mass)";
    std::set<int> gone;
    for (size_t i = 0; i < ndestroy; i++) {
        int rc = liberasurecode_instance_destroy(order[i]);
        if (rc != 0) { W.viol("C14", "destroy-live-failed", "destroy of live descriptor " + std::to_string(order[i]) + " returned " + std::to_string(rc)); }
        W.live_descs.erase(order[i]); W.dead_descs.insert(order[i]); gone.insert(order[i]);
    }
    // survivors must be fully functional
    std::vector<u8> data((size_t) op["len"].in(200)); Rng r(77); for (auto &b : data) b = (u8) r.next();
    for (int d : ds) {
        if (gone.count(d)) continue;
        char *in = (char *) thread_arena().place(data.data(), data.size(), Arena::RIGHT);
        char **ed = nullptr, **ep = nullptr; u64 fl = 0;
        cur().api = "encode(survivor)";
        int rc = liberasurecode_encode(d, in, data.size(), &ed, &ep, &fl);
        if (rc != 0) { W.viol("C14", "mass/survivor-encode-failed", "rc=" + std::to_string(rc)); }
        else {
            std::vector<char *> fr;   // lose data fragment 0 so that real decoding happens
            for (int i = 1; i < c.k + c.m; i++) fr.push_back(i < c.k ? ed[i] : ep[i - c.k]);
            char *out = nullptr; u64 ol = 0;
            cur().api = "decode(survivor)";
            int dr = (c.m > 0 && c.be != EC_BACKEND_NULL) ? liberasurecode_decode(d, fr.data(), (int) fr.size(), fl, 0, &out, &ol) : 0;
            if (c.m > 0 && c.be != EC_BACKEND_NULL) {
                if (dr != 0 || ol != data.size() || (ol && memcmp(out, data.data(), ol))) W.viol("C14", "mass/survivor-roundtrip-failed", "a surviving instance no longer round-trips after its siblings were destroyed (rc=" + std::to_string(dr) + ")");
                if (dr == 0) liberasurecode_decode_cleanup(d, out);
            }
            liberasurecode_encode_cleanup(d, ed, ep);
        }
        thread_arena().release_all();
        int rc2 = liberasurecode_instance_destroy(d);
        if (rc2 != 0) W.viol("C14", "destroy-live-failed", "destroy of surviving descriptor returned " + std::to_string(rc2));
        W.live_descs.erase(d); W.dead_descs.insert(d);
    }
    W.probe("mass.done");
}

// an instance the application never destroys: it is still registered when the process exits and the library's
// destructor runs (judged by the sanitizers at exit; attributed to the worker's last runs by the driver)
static void op_orphan(World &W, const Json &op) {
    struct ec_args a; memset(&a, 0, sizeof a); a.k = op["k"].in(3); a.m = op["m"].in(2); a.hd = op["hd"].in(2); a.ct = CHKSUM_NONE;
    cur().api = "instance_create";
    size_t live0 = own::live();
    int d = liberasurecode_instance_create((ec_backend_id_t) op["be"].in(EC_BACKEND_FLAT_XOR_HD), &a);
    W.trace.add("orphan.ok", d > 0);
    if (d > 0) { W.live_descs.insert(d); W.orphan_blocks += (long) own::live() - (long) live0; W.fault("ORPHAN_INSTANCE"); }
}

// the availability query for a backend id, asked while instances of it (or of others) are alive: a rarely used call that
// opens and closes the backend's plug-in
static void op_avail(World &W, const Json &op) {
    int id = op["id"].in(0);
    cur().api = "backend_available";
    int rc = liberasurecode_backend_available((ec_backend_id_t) id);
    W.trace.add("avail", rc);
    bool installed = id == EC_BACKEND_NULL || id == EC_BACKEND_FLAT_XOR_HD || id == EC_BACKEND_LIBERASURECODE_RS_VAND || be_is_isal(id);
    if (installed && rc != 1) W.viol("C13 C14 C19", "backend_available/installed-backend-reported-missing", "id " + std::to_string(id) + " returned " + std::to_string(rc));
    W.fault("AVAILABILITY_QUERY");
}

void exec_op_misc(World &W, const Json &op, const std::string &kind) {
    if (kind == "MASS") { op_mass(W, op); return; }
    if (kind == "BADCALL") op_badcall(W, op);
    else if (kind == "CYCLE") op_cycle(W, op);
    else if (kind == "CANARY") op_canary(W, op);
    else if (kind == "SETCTR") op_setctr(W, op);
    else if (kind == "ISAL") op_isal(W, op);
    else if (kind == "DESTROY_DEAD") op_destroy_dead(W, op);
    else if (kind == "ORPHAN") op_orphan(W, op);
    else if (kind == "AVAIL") op_avail(W, op);
    else W.probe("op.unknown");
}
