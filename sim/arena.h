// Guarded caller memory (seam S7): every input the library is handed lives between two PROT_NONE pages,
// is read-only while the library runs, and is placed right-aligned against the trailing guard page
// (exact over-read detection) or 16-aligned/offset with ASan-poisoned slack.
#pragma once
#include "util.h"
#include <sys/mman.h>
#include <vector>
#if defined(__SANITIZE_ADDRESS__)
#include <sanitizer/asan_interface.h>
#define ARENA_POISON(p, n) ASAN_POISON_MEMORY_REGION(p, n)
#define ARENA_UNPOISON(p, n) ASAN_UNPOISON_MEMORY_REGION(p, n)
#else
#define ARENA_POISON(p, n) ((void) 0)
#define ARENA_UNPOISON(p, n) ((void) 0)
#endif

struct Arena {
    enum { PAGE = 4096, SMALL_PAGES = 3, NSMALL = 96, RIGHT = 16 };
    struct Slot { u8 *map; size_t pages; bool used; bool big; };
    std::vector<Slot> slots;
    u64 n_placed = 0, n_right = 0, n_unaligned = 0;

    Arena() {
        for (int i = 0; i < NSMALL; i++) slots.push_back(mk(SMALL_PAGES, false));
    }
    ~Arena() {   // task threads come and go: give the mappings back (vm.max_map_count is finite)
        for (auto &s : slots) { ARENA_UNPOISON(s.map + PAGE, s.pages * PAGE); munmap(s.map, (s.pages + 2) * PAGE); }
    }
    Arena(const Arena &) = delete;
    static Slot mk(size_t pages, bool big) {
        size_t len = (pages + 2) * PAGE;
        u8 *m = (u8 *) mmap(nullptr, len, PROT_READ | PROT_WRITE, MAP_PRIVATE | MAP_ANONYMOUS, -1, 0);
        if (m == MAP_FAILED) { perror("mmap"); abort(); }
        mprotect(m, PAGE, PROT_NONE);
        mprotect(m + (pages + 1) * PAGE, PAGE, PROT_NONE);
        return Slot{m, pages, false, big};
    }
    // mode: 0 = 16-aligned at start of the data area, 1..15 = that offset, RIGHT = ends at the guard page.
    // writable: outputs the library must be able to write (still guard-paged on both sides)
    u8 *place(const u8 *src, size_t len, int mode, bool writable = false) {
        size_t need = (len + 15 + PAGE - 1) / PAGE;
        if (need == 0) need = 1;
        Slot *s = nullptr;
        if (need <= SMALL_PAGES)
            for (auto &c : slots) if (!c.used && !c.big) { s = &c; break; }
        if (!s) { slots.push_back(mk(need <= SMALL_PAGES ? SMALL_PAGES : need, need > SMALL_PAGES)); s = &slots.back(); }
        s->used = true;
        u8 *data = s->map + PAGE;
        size_t cap = s->pages * PAGE;
        mprotect(data, cap, PROT_READ | PROT_WRITE);
        ARENA_UNPOISON(data, cap);
        u8 *p;
        if (mode == RIGHT) { p = data + cap - len; n_right++; }
        else p = data + (mode & 15);
        if (((uintptr_t) p & 15) != 0) n_unaligned++;
        memset(data, 0xEE, cap);
        if (len && src) memcpy(p, src, len);
        // poison everything that is not the buffer (8-byte granularity, rounding inwards is not allowed: round out)
        if (p > data) { size_t pre = (size_t) (p - data) & ~(size_t) 7; if (pre) ARENA_POISON(data, pre); }
        u8 *end = p + len;
        u8 *pe = (u8 *) (((uintptr_t) end + 7) & ~(uintptr_t) 7);
        if (pe < data + cap) ARENA_POISON(pe, (size_t) (data + cap - pe));
        if (!writable) mprotect(data, cap, PROT_READ);
        n_placed++;
        return p;
    }
    void release_all() {
        for (size_t i = 0; i < slots.size();) {
            Slot &s = slots[i];
            if (s.used && s.big) {
                ARENA_UNPOISON(s.map + PAGE, s.pages * PAGE);
                munmap(s.map, (s.pages + 2) * PAGE);
                slots.erase(slots.begin() + i);
                continue;
            }
            if (s.used) {
                mprotect(s.map + PAGE, s.pages * PAGE, PROT_READ | PROT_WRITE);
                ARENA_UNPOISON(s.map + PAGE, s.pages * PAGE);
                s.used = false;
            }
            i++;
        }
    }
};
