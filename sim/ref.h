// Reference models (oracles).  Written from the property texts, not from /repo's code:
// golden header offsets, bitwise CRC models, acceptance / validity predicates,
// golden flat-XOR equations, GF(2) span and GF(2^8) rank tests.
#pragma once
#include "util.h"
#include "xor_golden.h"
#include <vector>
#include <string>

namespace ref {

// ---- golden wire layout (C07's text; used only as an oracle for C09..C12, C20)
enum {
    OFF_IDX = 0, OFF_SIZE = 4, OFF_BEMETA = 8, OFF_ORIGLEN = 12, OFF_CT = 20, OFF_CHKSUM = 21,
    OFF_MISMATCH = 53, OFF_BEID = 54, OFF_BEVER = 55, OFF_MAGIC = 59, OFF_LIBVER = 63, OFF_METACRC = 67,
    OFF_PAD = 71, HDR = 80, META = 59
};
static const u32 MAGIC = 0x0b0c5ecc;
static const u32 V_1_2_0 = (1u << 16) | (2u << 8) | 0;
enum { CT_NONE = 1, CT_CRC32 = 2, CT_MD5 = 3 };
enum { EBACKENDNOTSUPP = 200, EECMETHODNOTIMPL, EBACKENDINITERR, EBACKENDINUSE, EBACKENDNOTAVAIL, EBADCHKSUM,
       EINVALIDPARAMS, EBADHEADER, EINSUFFFRAGS };

static inline u32 ld32(const u8 *p) { return (u32) p[0] | ((u32) p[1] << 8) | ((u32) p[2] << 16) | ((u32) p[3] << 24); }
static inline u64 ld64(const u8 *p) { return (u64) ld32(p) | ((u64) ld32(p + 4) << 32); }
static inline void st32(u8 *p, u32 v) { p[0] = v; p[1] = v >> 8; p[2] = v >> 16; p[3] = v >> 24; }
static inline void st64(u8 *p, u64 v) { st32(p, (u32) v); st32(p + 4, (u32) (v >> 32)); }
static inline u32 bswap32(u32 x) { return (x >> 24) | ((x >> 8) & 0xff00) | ((x << 8) & 0xff0000) | (x << 24); }

// ---- CRC-32 (reflected, poly 0xEDB88320), bit by bit
static inline u32 crc_std(const u8 *p, size_t n) {
    u32 c = 0xffffffffu;
    for (size_t i = 0; i < n; i++) {
        c ^= p[i];
        for (int b = 0; b < 8; b++) c = (c >> 1) ^ (0xEDB88320u & (0u - (c & 1)));
    }
    return ~c;
}
// historical variant (launchpad #1666320): the running value was a signed int, so ">> 8" dragged the sign
// bit into the top byte, and the data byte was a signed char.  Table entry computed bitwise.
static inline u32 crc_tab_entry(u32 idx) {
    u32 c = idx & 0xff;
    for (int b = 0; b < 8; b++) c = (c >> 1) ^ (0xEDB88320u & (0u - (c & 1)));
    return c;
}
static inline u32 crc_legacy(const u8 *p, size_t n) {
    u32 c = 0xffffffffu;
    for (size_t i = 0; i < n; i++) {
        u32 byte = (u32) (int32_t) (signed char) p[i];
        u32 t = crc_tab_entry((c ^ byte) & 0xff);
        u32 hi = (c >> 8) & 0x00ffffffu;
        if (hi & 0x00800000u) hi |= 0xff000000u;
        c = t ^ hi;
    }
    return ~c;
}

static inline bool legacy_switch(const char *v) { return v && v[0] != 0 && !(v[0] == '0' && v[1] == 0); }

// ---- header predicates (§3.3 of DESIGN.md)
struct HdrView {
    bool swapped = false;  // magic is the byte-swapped constant
    bool magic_ok = false;
    u32 libver = 0, stored_crc = 0;
};
static inline HdrView view(const u8 *h) {
    HdrView v;
    u32 mg = ld32(h + OFF_MAGIC);
    v.libver = ld32(h + OFF_LIBVER);
    v.stored_crc = ld32(h + OFF_METACRC);
    if (mg == MAGIC) v.magic_ok = true;
    else if (bswap32(mg) == MAGIC) { v.magic_ok = true; v.swapped = true; v.libver = bswap32(v.libver); v.stored_crc = bswap32(v.stored_crc); }
    return v;
}
static inline bool accept_meta(const u8 *h) {
    if (ld32(h + OFF_LIBVER) == 0) return false;
    HdrView v = view(h);
    if (!v.magic_ok) return false;
    if (v.libver < V_1_2_0) return true;
    return v.stored_crc == crc_std(h, META) || v.stored_crc == crc_legacy(h, META);
}
static inline bool accept_consume(const u8 *h) { return accept_meta(h) && ld32(h + OFF_MAGIC) == MAGIC; }

// logical (host order) field values of a header, un-swapping a foreign-endian one
struct Fields {
    u32 idx, size, bemeta; u64 origlen; u32 ct; u32 chksum0; u32 mismatch_byte, beid, bever;
};
static inline Fields fields(const u8 *h) {
    Fields f; bool sw = view(h).swapped;
    auto g = [&](int off) { u32 x = ld32(h + off); return sw ? bswap32(x) : x; };
    f.idx = g(OFF_IDX); f.size = g(OFF_SIZE); f.bemeta = g(OFF_BEMETA);
    u64 o = ld64(h + OFF_ORIGLEN);
    if (sw) o = ((u64) bswap32((u32) o) << 32) | bswap32((u32) (o >> 32));
    f.origlen = o; f.ct = h[OFF_CT]; f.chksum0 = g(OFF_CHKSUM); f.mismatch_byte = h[OFF_MISMATCH];
    f.beid = h[OFF_BEID]; f.bever = g(OFF_BEVER);
    return f;
}
// payload checksum mismatch of a fragment whose header is acceptable; len = total bytes available
static inline bool payload_mismatch(const u8 *frag, size_t len) {
    Fields f = fields(frag);
    if (f.ct != CT_CRC32) return false;
    if ((u64) f.size + HDR > len) return true;  // cannot even be computed: treated as damaged (generators avoid this)
    const u8 *pl = frag + HDR;
    return f.chksum0 != crc_std(pl, f.size) && f.chksum0 != crc_legacy(pl, f.size);
}

struct InstView { int k, m, beid; u32 bever; bool any_bever; u32 running_version; };
// per-fragment validity (C12)
static inline bool invalid(const InstView &I, const u8 *frag, size_t len) {
    if (!accept_meta(frag)) return true;
    if (ld32(frag + OFF_MAGIC) != MAGIC) return true;
    if (ld32(frag + OFF_LIBVER) > I.running_version) return true;
    Fields f = fields(frag);
    if (f.idx >= (u32) (I.k + I.m)) return true;  // also catches "negative" (>= 2^31)
    if ((int) f.beid != I.beid) return true;
    if (!I.any_bever && f.bever != I.bever) return true;
    if (payload_mismatch(frag, len)) return true;
    return false;
}
// stripe-level verdict for one fragment's *metadata bytes as stored* (no CRC recomputation): C12 second clause
static inline bool stripe_bad(const InstView &I, const u8 *frag) {
    u32 idx = ld32(frag + OFF_IDX);
    if (idx >= (u32) (I.k + I.m)) return true;
    if (frag[OFF_BEID] != I.beid) return true;
    if (!I.any_bever && ld32(frag + OFF_BEVER) != I.bever) return true;
    if (frag[OFF_MISMATCH] == 1) return true;
    return false;
}

// ---- flat XOR golden equations
static inline const XorGolden *xor_golden(int k, int m, int hd) {
    for (int i = 0; i < XOR_GOLDEN_N; i++)
        if (XOR_GOLDEN[i].k == k && XOR_GOLDEN[i].m == m && XOR_GOLDEN[i].hd == hd) return &XOR_GOLDEN[i];
    return nullptr;
}
// row vector (over the k data symbols) of fragment idx under the golden code
static inline u32 xor_row(const XorGolden *g, int idx) { return idx < g->k ? (1u << idx) : g->eq[idx - g->k]; }
// is `target` in the GF(2) span of `rows`?
static inline bool gf2_in_span(std::vector<u32> rows, u32 target) {
    // gaussian elimination to a basis indexed by leading bit
    u32 basis[32] = {0};
    for (u32 r : rows) {
        for (int b = 31; b >= 0 && r; b--) {
            if (!((r >> b) & 1)) continue;
            if (!basis[b]) { basis[b] = r; r = 0; break; }
            r ^= basis[b];
        }
    }
    for (int b = 31; b >= 0 && target; b--) {
        if (!((target >> b) & 1)) continue;
        if (!basis[b]) return false;
        target ^= basis[b];
    }
    return target == 0;
}
static inline int gf2_rank(const std::vector<u32> &rows) {
    u32 basis[32] = {0}; int rk = 0;
    for (u32 r : rows) {
        for (int b = 31; b >= 0 && r; b--) {
            if (!((r >> b) & 1)) continue;
            if (!basis[b]) { basis[b] = r; rk++; r = 0; break; }
            r ^= basis[b];
        }
    }
    return rk;
}
// can the data be recovered from the available fragment set (bitmask over k+m) under the golden code?
static inline bool xor_recoverable(const XorGolden *g, u64 avail_mask) {
    std::vector<u32> rows;
    for (int i = 0; i < g->k + g->m; i++) if ((avail_mask >> i) & 1) rows.push_back(xor_row(g, i));
    return gf2_rank(rows) == g->k;
}

// ---- GF(2^8)/0x11d for the ISA-L invertibility precondition (own arithmetic, independent of the stub)
static inline u8 g8_mul(u8 a, u8 b) {
    unsigned r = 0, x = a, y = b;
    while (y) { if (y & 1) r ^= x; x <<= 1; if (x & 0x100) x ^= 0x11d; y >>= 1; }
    return (u8) r;
}
static inline u8 g8_inv(u8 a) { u8 r = 1; for (int i = 0; i < 254; i++) r = g8_mul(r, a); return r; }
static inline std::vector<u8> isal_matrix(bool cauchy, int k, int m) {
    int n = k + m; std::vector<u8> a((size_t) n * k, 0);
    for (int i = 0; i < k; i++) a[(size_t) i * k + i] = 1;
    if (cauchy) {
        for (int i = k; i < n; i++) for (int j = 0; j < k; j++) a[(size_t) i * k + j] = g8_inv((u8) (i ^ j));
    } else {
        u8 gen = 1;
        for (int i = k; i < n; i++) { u8 p = 1; for (int j = 0; j < k; j++) { a[(size_t) i * k + j] = p; p = g8_mul(p, gen); } gen = g8_mul(gen, 2); }
    }
    return a;
}
// is the k x k matrix made of the FIRST k available rows invertible? (that is what the adapters invert)
static inline bool isal_first_k_invertible(bool cauchy, int k, int m, u64 avail_mask) {
    std::vector<u8> g = isal_matrix(cauchy, k, m);
    std::vector<u8> w; int got = 0;
    for (int i = 0; i < k + m && got < k; i++) if ((avail_mask >> i) & 1) { w.insert(w.end(), g.begin() + (size_t) i * k, g.begin() + (size_t) (i + 1) * k); got++; }
    if (got < k) return false;
    for (int c = 0; c < k; c++) {
        int piv = -1;
        for (int r = c; r < k; r++) if (w[(size_t) r * k + c]) { piv = r; break; }
        if (piv < 0) return false;
        if (piv != c) for (int j = 0; j < k; j++) std::swap(w[(size_t) c * k + j], w[(size_t) piv * k + j]);
        u8 inv = g8_inv(w[(size_t) c * k + c]);
        for (int j = 0; j < k; j++) w[(size_t) c * k + j] = g8_mul(w[(size_t) c * k + j], inv);
        for (int r = 0; r < k; r++) {
            if (r == c) continue;
            u8 t = w[(size_t) r * k + c];
            if (!t) continue;
            for (int j = 0; j < k; j++) w[(size_t) r * k + j] ^= g8_mul(t, w[(size_t) c * k + j]);
        }
    }
    return true;
}

}  // namespace ref
