#!/bin/sh
# Development helper: run the quick check of <prop> against a scratch worktree of /repo with one seeded change applied
# (leaves /repo untouched; the worktree and its build output are removed afterwards).   usage: ./trial.sh <seed-dir-name> [prop]
cd "$(dirname "$0")"
seed=$1; prop=${2:-${seed%%-*}}
wt=/var/tmp/wt-trial-$$
git -C /repo worktree add --detach $wt HEAD >/dev/null 2>&1 || exit 2
if [ -f seeded/$seed/patch.diff ]; then pf=seeded/$seed/patch.diff; else pf=mutants/$seed.patch; fi
git -C $wt apply "$(pwd)/$pf" || { git -C /repo worktree remove --force $wt; exit 2; }
VERIF_REPO=$wt VERIF_EVIDENCE_DIR=/var/tmp/trial-evidence ./check $prop 2>&1 | grep -v conda | grep "^\[check\] C../\|quick:\|NOT REPRO\|machinery" | cut -c1-260
git -C /repo worktree remove --force $wt; git -C /repo worktree prune
