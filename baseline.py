#!/usr/bin/env python3
# Runs the repository's own test suite with the verification guard OFF (the project's normal build)
# and compares the passing tests with /root/.vp/BASELINE.json's stable_pass list.
import json, os, re, subprocess, sys
repo = os.environ.get("VERIF_REPO", "/repo")
base = json.load(open("/root/.vp/BASELINE.json"))
want = set(base["stable_pass"])
def sh(cmd):
    return subprocess.run(cmd, shell=True, cwd=repo, stdout=subprocess.PIPE, stderr=subprocess.STDOUT, text=True)
if not os.path.exists(os.path.join(repo, "Makefile")):
    r = sh("./autogen.sh >/dev/null 2>&1; ./configure")
    if r.returncode:
        print(r.stdout[-3000:]); sys.exit(2)
# the test programs have no make dependency on the rebuilt libraries (one is linked statically): force a relink
for t in ("liberasurecode_test", "alg_sig_test", "test_xor_hd_code", "libec_slap", "rs_galois_test", "liberasurecode_rs_vand_test"):
    for d in ("test", "test/.libs"):
        try:
            os.unlink(os.path.join(repo, d, t))
        except OSError:
            pass
b = sh("make -j8")
if b.returncode:
    print(b.stdout[-3000:]); print("BASELINE: build failed"); sys.exit(1)
t = sh("make test")
passed = set()
for line in t.stdout.splitlines():
    m = re.match(r"^(\d+ - .*?) \.\.\. ok\s*$", line)
    if m:
        passed.add(m.group(1))
    if re.match(r"^\s*Encode: OK", line):
        passed.add("Encode")
missing = sorted(want - passed)
print("BASELINE: make test rc=%d, %d tests passed, %d of %d baseline tests passing" % (t.returncode, len(passed), len(want) - len(missing), len(want)))
for m_ in missing[:20]:
    print("  not passing: " + m_)
if t.returncode or missing:
    print(t.stdout[-2000:])
    sys.exit(1)
sys.exit(0)
