#!/usr/bin/env python3
# Regenerates /verif/MANIFEST.json from the check configuration (vlib/props.py) and the hook commits in /repo.
import json, os, subprocess, sys
VERIF = os.path.dirname(os.path.dirname(os.path.abspath(__file__)))
sys.path.insert(0, VERIF)
from vlib.props import PROPS, LEVEL_TEXT, NOT_APPLICABLE, TECHNIQUE
def hook_commits():
    try:
        out = subprocess.run(["git", "-C", "/repo", "log", "--format=%H %s"], stdout=subprocess.PIPE, text=True).stdout
        return [l.split()[0] for l in out.splitlines() if " verif-hook:" in l or l.split(" ", 1)[1].startswith("verif-hook")]
    except Exception:
        return []
checks = []
for pid in sorted(PROPS):
    c = PROPS[pid]
    checks.append({
        "property_id": pid,
        "quick_cmd": "./check %s --tier quick" % pid,
        "thorough_cmd": "./check %s --tier thorough" % pid,
        "evidence_file": "/verif/evidence/%s.json" % pid,
        "replay_cmd_template": "./check replay {path}",
        "engine": "ecsim",
        "level_claimed": {"category": c["level"], "text": LEVEL_TEXT[pid], "design_ref": "DESIGN.md section 4, " + pid},
        "level_note": "; ".join(c["assumptions"]),
        "technique": TECHNIQUE.get(pid, "deterministic simulation with fault injection"),
    })
m = {
    "version": 1,
    "setup_cmd": "./check build",
    "hooks": {
        "guard": "LIBERASURECODE_VERIF",
        "enable": "/verif/vlib/build.py compiles /repo's current working tree out of tree with -DLIBERASURECODE_VERIF (plus sanitizer flags) and links the four shared objects with -Wl,--wrap for allocator and pthread lock symbols; the autotools build never defines the guard",
        "baseline_off_cmd": "python3 /verif/baseline.py",
        "source_commits": hook_commits(),
        "add_only": True,
    },
    "engines": [{"name": "ecsim", "path": "/verif/sim", "serves_properties": sorted(PROPS),
                 "kind_free_text": "deterministic simulation with fault injection: seeded plans (operations with attached faults) executed against the real library inside a simulated erasure-coded object store, reference models as oracles, seeded thread scheduler for concurrency, fresh-process gate, ddmin minimiser, replay files"}],
    "checks": checks,
    "not_applicable": NOT_APPLICABLE,
    "notes": "Genuine defects found are fixed in /repo as 'fix:' commits and listed in /verif/known_findings.json (status fixed). Replay: ./check replay <file>. Determinism self-test: ./check selftest-determinism.",
}
json.dump(m, open(os.path.join(VERIF, "MANIFEST.json"), "w"), indent=1)
print("MANIFEST.json: %d checks, %d not applicable" % (len(checks), len(NOT_APPLICABLE)))
