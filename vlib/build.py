# Build liberasurecode (from the repo's *current working tree*) and the ecsim harness.
#
# Layout:  /verif/build/<tree-hash>/<flavour>/{lib,lib-portable,lib-isal,obj,ecsim}
# The tree hash covers every file under <repo>/src and <repo>/include plus the harness
# sources, so an edit anywhere triggers a rebuild and an unchanged tree is a cache hit.
import hashlib, os, re, shutil, subprocess, sys, time
from concurrent.futures import ThreadPoolExecutor

VERIF = os.path.dirname(os.path.dirname(os.path.abspath(__file__)))
GUARD = "LIBERASURECODE_VERIF"

WRAP_SYMS = ["malloc", "calloc", "realloc", "free", "posix_memalign", "strdup", "dlsym", "dlopen",
             "pthread_rwlock_rdlock", "pthread_rwlock_wrlock", "pthread_rwlock_unlock",
             "pthread_rwlock_tryrdlock", "pthread_rwlock_trywrlock",
             "pthread_mutex_lock", "pthread_mutex_unlock", "pthread_mutex_trylock"]

FLAVOURS = {
    # default flavour of every check
    "asan": dict(cc="gcc", cxx="g++",
                 cflags=["-O1", "-g", "-fno-omit-frame-pointer",
                         "-fsanitize=address,undefined", "-fno-sanitize-recover=undefined",
                         "-fno-sanitize=shift-base"],
                 ldflags=["-fsanitize=address,undefined"]),
    # shipped optimisation level, no sanitizer (C14 counter wrap cross-check)
    "plain": dict(cc="gcc", cxx="g++", cflags=["-O2", "-g"], ldflags=[]),
    # ThreadSanitizer behind the deterministic scheduler (C18 second oracle)
    "tsan": dict(cc="gcc", cxx="g++",
                 cflags=["-O1", "-g", "-fno-omit-frame-pointer", "-fsanitize=thread"],
                 ldflags=["-fsanitize=thread"]),
}


def repo_root():
    return os.path.abspath(os.environ.get("VERIF_REPO", "/repo"))


def _files(root, sub, exts):
    out = []
    base = os.path.join(root, sub)
    for d, dirs, fs in os.walk(base):
        dirs[:] = sorted(x for x in dirs if x not in (".libs", ".deps"))
        for f in sorted(fs):
            if f.endswith(exts):
                out.append(os.path.join(d, f))
    return out


def tree_hash(repo):
    h = hashlib.sha256()
    for p in (_files(repo, "src", (".c", ".h", ".am")) + _files(repo, "include", (".h",))):
        if p.endswith("config_liberasurecode.h"):
            continue  # configure product, machine specific, no code
        h.update(os.path.relpath(p, repo).encode())
        with open(p, "rb") as f:
            h.update(f.read())
    for p in _files(VERIF, "sim", (".cc", ".h", ".c", ".inc")) + [os.path.abspath(__file__)]:
        h.update(os.path.relpath(p, VERIF).encode())
        with open(p, "rb") as f:
            h.update(f.read())
    return h.hexdigest()[:16]


def _am_sources(am_path, var):
    """Source list of an automake *_SOURCES variable (so files added to the build are picked up)."""
    txt = open(am_path).read().replace("\\\n", " ")
    m = re.search(r"^%s\s*=\s*(.*)$" % re.escape(var), txt, re.M)
    if not m:
        raise RuntimeError("no %s in %s" % (var, am_path))
    return [s for s in m.group(1).split() if s.endswith(".c")]


def _run(cmd, log):
    p = subprocess.run(cmd, stdout=subprocess.PIPE, stderr=subprocess.STDOUT, text=True)
    if p.returncode != 0:
        log.append("FAILED: " + " ".join(cmd) + "\n" + p.stdout)
        raise RuntimeError("build step failed:\n%s\n%s" % (" ".join(cmd), p.stdout))
    return p.stdout


def build(flavour="asan", quiet=False):
    """Returns the directory holding ecsim and the libraries for this tree+flavour."""
    repo = repo_root()
    th = tree_hash(repo)
    out = os.path.join(VERIF, "build", th, flavour)
    stamp = os.path.join(out, ".ok")
    if os.path.exists(stamp):
        os.utime(os.path.join(VERIF, "build", th))
        return out
    t0 = time.time()
    if os.path.isdir(out):
        shutil.rmtree(out)
    for d in ("obj", "lib", "lib-portable", "lib-isal"):
        os.makedirs(os.path.join(out, d))
    fl = FLAVOURS[flavour]
    log = []
    inc = ["-I" + os.path.join(repo, "include", d) for d in
           ("erasurecode", "xor_codes", "rs_vand", "isa_l", "shss", "null_code")]
    cfgdir = os.path.join(repo, "include")
    if not os.path.exists(os.path.join(cfgdir, "config_liberasurecode.h")):
        cfgdir = os.path.join(VERIF, "sim", "compat")
    inc.append("-I" + cfgdir)
    base_c = [fl["cc"], "-std=gnu99", "-D_GNU_SOURCE", "-D" + GUARD, "-fPIC", "-w"] + fl["cflags"] + inc
    wrap = ["-Wl,--wrap=" + s for s in WRAP_SYMS]

    def cc(src, obj, extra=()):
        _run(base_c + list(extra) + ["-c", src, "-o", obj], log)

    jobs = []
    srcdir = os.path.join(repo, "src")
    core = _am_sources(os.path.join(srcdir, "Makefile.am"), "liberasurecode_la_SOURCES")
    xor = _am_sources(os.path.join(srcdir, "builtin/xor_codes/Makefile.am"), "libXorcode_la_SOURCES")
    rsv = _am_sources(os.path.join(srcdir, "builtin/rs_vand/Makefile.am"), "liberasurecode_rs_vand_la_SOURCES")
    nul = _am_sources(os.path.join(srcdir, "builtin/null_code/Makefile.am"), "libnullcode_la_SOURCES")

    def objname(tag, s):
        return os.path.join(out, "obj", tag + "-" + s.replace("/", "_")[:-2] + ".o")

    groups = {
        "core": (core, srcdir, []),
        "xorsse": (xor, os.path.join(srcdir, "builtin/xor_codes"), ["-msse2", "-DINTEL_SSE2"]),
        "xorport": (xor, os.path.join(srcdir, "builtin/xor_codes"), []),
        "rsv": (rsv, os.path.join(srcdir, "builtin/rs_vand"), []),
        "nul": (nul, os.path.join(srcdir, "builtin/null_code"), []),
    }
    with ThreadPoolExecutor(max_workers=16) as ex:
        futs = []
        for tag, (srcs, d, extra) in groups.items():
            for s in srcs:
                futs.append(ex.submit(cc, os.path.join(d, s), objname(tag, s), extra))
        # clean-room ISA-L stand-in (instrumented like the library, so accesses to adapter-owned buffers are visible to
        # ThreadSanitizer; its own statistics counters are compiled out there)
        futs.append(ex.submit(cc, os.path.join(VERIF, "sim", "isal", "isal_stub.c"),
                              os.path.join(out, "obj", "isal_stub.o"), ["-DISAL_STUB_NO_COUNTERS"] if flavour == "tsan" else []))
        for f in futs:
            f.result()

    def link_so(name, soname, objs, libdir, deps=()):
        cmd = ([fl["cc"], "-shared", "-o", os.path.join(out, libdir, soname), "-Wl,-soname," + soname]
               + objs + fl["ldflags"] + wrap + ["-L" + os.path.join(out, libdir)] + list(deps))
        _run(cmd, log)
        # unversioned name for -l
        ln = os.path.join(out, libdir, name + ".so")
        if os.path.lexists(ln):
            os.unlink(ln)
        os.symlink(soname, ln)

    o = lambda tag, srcs: [objname(tag, s) for s in srcs]
    link_so("libXorcode", "libXorcode.so.1", o("xorsse", xor), "lib")
    link_so("libXorcode", "libXorcode.so.1", o("xorport", xor), "lib-portable")
    link_so("libnullcode", "libnullcode.so.1", o("nul", nul), "lib")
    link_so("liberasurecode_rs_vand", "liberasurecode_rs_vand.so.1", o("rsv", rsv), "lib")
    link_so("liberasurecode", "liberasurecode.so.1", o("core", core), "lib",
            deps=["-lnullcode", "-lXorcode", "-lerasurecode_rs_vand", "-lpthread", "-lm", "-lz", "-ldl"])
    # the stub must not be --wrap'ed: it is not library code
    _run([fl["cc"], "-shared", "-o", os.path.join(out, "lib-isal", "libisal.so.2"),
          "-Wl,-soname,libisal.so.2", os.path.join(out, "obj", "isal_stub.o")] + fl["ldflags"], log)

    # harness
    simdir = os.path.join(VERIF, "sim")
    # tsan flavour: only the library is instrumented.  The harness (scheduler hand-off, shared World, accounting) stays
    # invisible to ThreadSanitizer, which therefore sees the library's own synchronisation and nothing else.
    hflags = [x for x in fl["cflags"] if not x.startswith("-O") and not (flavour == "tsan" and x.startswith("-fsanitize"))]
    cxxflags = [fl["cxx"], "-std=gnu++17", "-D_GNU_SOURCE", "-Wall", "-Wno-unused-function", "-fPIC"] + \
        hflags + ["-O1"] + inc + ["-I" + simdir, "-DVERIF_FLAVOUR=\"%s\"" % flavour]
    if flavour == "tsan":
        cxxflags.append("-DVERIF_TSAN=1")
    ccs = sorted(f for f in os.listdir(simdir) if f.endswith(".cc"))
    with ThreadPoolExecutor(max_workers=16) as ex:
        futs = []
        for s in ccs:
            extra = []
            futs.append(ex.submit(_run, cxxflags + extra + ["-c", os.path.join(simdir, s), "-o",
                                                            os.path.join(out, "obj", "sim-" + s[:-3] + ".o")], log))
        for f in futs:
            f.result()
    _run([fl["cxx"], "-rdynamic", "-o", os.path.join(out, "ecsim")] +
         [os.path.join(out, "obj", "sim-" + s[:-3] + ".o") for s in ccs] + fl["ldflags"] +
         ["-L" + os.path.join(out, "lib"), "-lerasurecode", "-lXorcode", "-lerasurecode_rs_vand", "-lnullcode",
          "-lpthread", "-ldl", "-lz"], log)
    open(stamp, "w").write("%s %s %.1fs\n" % (th, flavour, time.time() - t0))
    if not quiet:
        sys.stderr.write("[build] %s/%s in %.1fs\n" % (th, flavour, time.time() - t0))
    _prune(keep=th)
    return out


def _prune(keep, maxkeep=4, min_age_s=3600):
    """Disk is limited: keep only the newest few tree builds (never one used within the last hour: another check
    process may be running from it)."""
    b = os.path.join(VERIF, "build")
    ds = [d for d in os.listdir(b) if os.path.isdir(os.path.join(b, d))]
    ds.sort(key=lambda d: os.path.getmtime(os.path.join(b, d)), reverse=True)
    now = time.time()
    for d in ds[maxkeep:]:
        if d != keep and now - os.path.getmtime(os.path.join(b, d)) > min_age_s:
            shutil.rmtree(os.path.join(b, d), ignore_errors=True)


def run_env(bdir, xor_flavour="sse2", extra=None):
    env = dict(os.environ)
    libs = []
    if xor_flavour == "portable":
        libs.append(os.path.join(bdir, "lib-portable"))
    libs += [os.path.join(bdir, "lib"), os.path.join(bdir, "lib-isal")]
    env["LD_LIBRARY_PATH"] = ":".join(libs)
    env["ASAN_OPTIONS"] = ("detect_odr_violation=0:exitcode=77:detect_leaks=0:abort_on_error=0:"
                           "allocator_may_return_null=1:max_allocation_size_mb=4096:handle_abort=1:"
                           "symbolize=1:malloc_context_size=8")
    env["UBSAN_OPTIONS"] = "print_stacktrace=1:halt_on_error=1:exitcode=77"
    env["TSAN_OPTIONS"] = "exitcode=0:report_signal_unsafe=0:halt_on_error=0:ignore_interceptors_accesses=1:history_size=4"
    env.pop("LIBERASURECODE_WRITE_LEGACY_CRC", None)
    if extra:
        env.update(extra)
    return env
