#!/usr/bin/env python3
# Confirms a seeded change written by a sub-agent (which saw only the property text) in the agent's scratch worktree
# and files it under /verif/seeded/<ID>-<x>/ : patch.diff, the demonstration, meta.json.
#   seedtool.py confirm <ID> <x> [worktree]     e.g. confirm C06 a
# Confirmation = patch applies; project builds; the unedited `make test` passes with freshly relinked test programs;
# the demonstration fails with the patch and passes without it.
import json, os, shutil, subprocess, sys, time, re

VERIF = os.path.dirname(os.path.dirname(os.path.abspath(__file__)))
TESTS = ("liberasurecode_test", "alg_sig_test", "test_xor_hd_code", "libec_slap", "rs_galois_test", "liberasurecode_rs_vand_test")


def sh(cmd, cwd, timeout=1200):
    p = subprocess.run(cmd, shell=True, cwd=cwd, stdout=subprocess.PIPE, stderr=subprocess.STDOUT, text=True, timeout=timeout)
    return p.returncode, p.stdout


def rebuild(wt):
    for t in TESTS:
        for d in ("test", "test/.libs"):
            try:
                os.unlink(os.path.join(wt, d, t))
            except OSError:
                pass
    if not os.path.exists(os.path.join(wt, "Makefile")):
        rc, out = sh("./autogen.sh >/dev/null 2>&1; ./configure >/dev/null 2>&1", wt)
    return sh("make -j8 2>&1 | tail -5", wt)


def run_demo(sdir, wt):
    run = None
    for cand in ("run.sh", "demo.sh"):
        if os.path.exists(os.path.join(sdir, cand)):
            run = cand
            break
    if not run:
        return None, "no run script"
    rc, out = sh("bash ./%s %s" % (run, wt), sdir, timeout=900)
    return rc, out[-1500:]


def confirm(pid, x, wt=None):
    wt = wt or "/tmp/wt-%s" % pid
    sdir = "/tmp/seed-%s/%s" % (pid, x)
    patch = os.path.join(sdir, "patch.diff")
    log = {}
    rc, out = sh("git checkout -q -- . && git apply --check %s" % patch, wt)
    if rc:
        print("patch does not apply:", out)
        return 1
    sh("git apply %s" % patch, wt)
    rc, out = rebuild(wt)
    log["build_with_patch_rc"] = rc
    rc, out = sh("make test 2>&1", wt)
    npass = len(re.findall(r"\.\.\. ok\s*$", out, re.M))
    log["make_test_with_patch"] = {"rc": rc, "tests_ok": npass}
    drc, dout = run_demo(sdir, wt)
    log["demo_with_patch"] = {"rc": drc, "tail": dout[-600:]}
    sh("git checkout -q -- .", wt)
    rebuild(wt)
    drc2, dout2 = run_demo(sdir, wt)
    log["demo_without_patch"] = {"rc": drc2, "tail": dout2[-300:]}
    ok = (log["make_test_with_patch"]["rc"] == 0 and npass >= 132 and drc not in (0, None) and drc2 == 0)
    print(json.dumps(log, indent=1)[:3000])
    print("CONFIRMED" if ok else "NOT CONFIRMED")
    if not ok:
        return 1
    dst = os.path.join(VERIF, "seeded", "%s-%s" % (pid, x))
    shutil.rmtree(dst, ignore_errors=True)
    os.makedirs(dst)
    for f in os.listdir(sdir):
        src = os.path.join(sdir, f)
        if os.path.isfile(src) and os.path.getsize(src) < 200000 and not f.endswith((".o", ".so", ".so.2")) and f not in ("demo",):
            if os.access(src, os.X_OK) and not f.endswith(".sh"):
                continue
            shutil.copy(src, dst)
    readme = ""
    if os.path.exists(os.path.join(sdir, "README.md")):
        readme = open(os.path.join(sdir, "README.md")).read()
    meta = {
        "id": "%s-%s" % (pid, x), "breaks_property": pid,
        "written_by": "independent sub-agent given only the property text and a scratch worktree",
        "needs_to_manifest": "see README.md (agent's description)",
        "confirmed": log,
        "what_i_ran": ["git apply patch.diff (scratch worktree %s)" % wt, "rm test programs; make -j8", "make test -> rc 0, %d tests ok" % npass,
                       "bash run.sh -> exit %s (fails with the change)" % drc, "git checkout -- .; make; bash run.sh -> exit 0"],
        "confirmed_at": time.strftime("%Y-%m-%dT%H:%M:%SZ", time.gmtime()),
    }
    with open(os.path.join(dst, "meta.json"), "w") as f:
        json.dump(meta, f, indent=1)
    catp = os.path.join(VERIF, "seeded", "catalog.json")
    cat = json.load(open(catp)) if os.path.exists(catp) else {"comment": "seeded changes from independent sub-agents: name -> properties whose quick check must report a violation", "mutants": {}}
    cat["mutants"].setdefault("%s-%s" % (pid, x), [pid])
    json.dump(cat, open(catp, "w"), indent=1)
    return 0


if __name__ == "__main__":
    if sys.argv[1] == "confirm":
        sys.exit(confirm(sys.argv[2], sys.argv[3], sys.argv[4] if len(sys.argv) > 4 else None))
