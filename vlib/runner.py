# Worker management, crash classification, gating, minimisation, known findings, evidence.
import copy, fnmatch, json, os, re, subprocess, sys, threading, time
from . import build as B

VERIF = B.VERIF
NWORKERS = int(os.environ.get("VERIF_WORKERS", "16"))


# ----------------------------------------------------------------------------- crash classification
def classify_crash(out, err, repo):
    """Stable signature parts for a worker that died: (class, function)."""
    cls, func = "died", "?"
    m = re.search(r"ERROR: AddressSanitizer: ([A-Za-z0-9\-_]+)", err)
    if m:
        # which ASan class a wild access lands in (overflow / use-after-free / SEGV) depends on heap layout, not on
        # the defect: all out-of-bounds memory accesses are one class
        kind = m.group(1)
        if kind in ("heap-buffer-overflow", "global-buffer-overflow", "stack-buffer-overflow", "heap-use-after-free", "SEGV",
                    "use-after-poison", "dynamic-stack-buffer-overflow", "stack-use-after-return", "unknown-crash",
                    "container-overflow", "negative-size-param", "memcpy-param-overlap", "BUS"):
            cls = "memory-fault"
        elif kind in ("attempting", "double-free", "bad-free", "alloc-dealloc-mismatch"):
            cls = "bad-free"
            if "double-free" in err:
                cls = "double-free"
        else:
            cls = "asan:" + kind
    else:
        m = re.search(r"runtime error: (.*)", err)
        if m:
            msg = re.sub(r"0x[0-9a-fA-F]+", "P", m.group(1))   # addresses first: they vary from process to process
            msg = re.sub(r"-?\d+", "N", msg)
            msg = re.sub(r"'[^']*'", "T", msg)
            cls = "ubsan:" + re.sub(r"[^A-Za-z]+", "-", msg).strip("-")[:60]
        else:
            m = re.search(r"SIGNAL (\d+)", out)
            if m:
                cls = "signal:" + m.group(1)
            elif "ThreadSanitizer" in err:
                cls = "tsan"
    # first stack frame inside the repository
    frames = re.findall(r"#\d+ 0x[0-9a-f]+ in (\S+) (\S+)", err)
    for fn, loc in frames:
        if loc.startswith(repo + "/") or "/src/" in loc and "/verif/" not in loc and "libsanitizer" not in loc:
            func = fn
            break
    else:
        m = re.search(r"(/\S+?/src/\S+?\.[ch]):(\d+):\d+: runtime error", err)
        if m:
            func = os.path.basename(m.group(1))
    return cls, func


def died_info(out):
    m = re.search(r"DIED op=(-?\d+) kind=(\S*) api=(\S*)", out)
    if m:
        return int(m.group(1)), m.group(2), m.group(3)
    ms = re.findall(r"^AT op=(-?\d+) kind=(\S*)", out, re.M)   # exec mode announces every op
    if ms:
        return int(ms[-1][0]), ms[-1][1], "?"
    return -9, "?", "?"


def crash_signature(prop, out, err, repo):
    cls, func = classify_crash(out, err, repo)
    op, kind, api = died_info(out)
    return "%s/%s/crash/%s/%s/%s" % (prop, kind, api, cls, func), op


# ----------------------------------------------------------------------------- one-shot execution of a plan (gate, minimise, replay)
def _stack_limiter(kb):
    """preexec_fn limiting the main-thread stack of the child (a swarm knob: a quarter of the runs use a small stack)."""
    if not kb:
        return None
    import resource
    def f():
        resource.setrlimit(resource.RLIMIT_STACK, (kb * 1024, kb * 1024))
    return f


def exec_plan(bdir, plan, timeout=60, flavour_env=None, verbose=False):
    """Run one plan in a fresh process. Returns dict(kind='ok'|'crash'|'hang', hash, sigs[list], viol[list], out, err)."""
    os.makedirs(os.path.join(VERIF, "tmp"), exist_ok=True)
    path = os.path.join(VERIF, "tmp", "plan-%d-%d.json" % (os.getpid(), threading.get_ident()))
    with open(path, "w") as f:
        json.dump(plan, f)
    env = B.run_env(bdir, plan.get("xor", "sse2"), flavour_env)
    cmd = [os.path.join(bdir, "ecsim"), "exec", path] + (["-v"] if verbose else [])
    try:
        p = subprocess.run(cmd, env=env, stdout=subprocess.PIPE, stderr=subprocess.PIPE, timeout=timeout, preexec_fn=_stack_limiter(plan.get("stack_kb")))
        out, err, rc = p.stdout.decode("latin1"), p.stderr.decode("latin1"), p.returncode
    except subprocess.TimeoutExpired as e:
        out = (e.stdout or b"").decode("latin1")
        return dict(kind="hang", hash=None, sigs=["%s/%s/hang" % (plan.get("prop"), "?")], viol=[], out=out, err="")
    finally:
        try:
            os.unlink(path)
        except OSError:
            pass
    m = re.search(r"^END -?\d+ (.*)$", out, re.M)
    if m and rc == 0:
        r = json.loads(m.group(1))
        viol = list(r.get("viol", []))
        if "ThreadSanitizer" in err:
            for sg in tsan_signatures(plan.get("prop"), err, B.repo_root()):
                blk = err[err.find("WARNING: ThreadSanitizer"):][:1200]
                viol.append(dict(sig=sg, prop=plan.get("prop"), op=-1, detail="ThreadSanitizer (behind the deterministic scheduler): " + " | ".join(l.strip() for l in blk.splitlines()[:14])))
        return dict(kind="ok", hash=r["hash"], sigs=[v["sig"] for v in viol], viol=viol, out=out, err=err, res=r)
    sig, op = crash_signature(plan.get("prop"), out, err, B.repo_root())
    return dict(kind="crash", hash=None, sigs=[sig], viol=[dict(sig=sig, prop=plan.get("prop"), op=op, detail=_crash_excerpt(err))], out=out, err=err)


def exec_sequence(bdir, prop, tier, seed, start, step, count, timeout=180, flavour_env=None):
    """Run `count` consecutive run indexes of one worker (start, start+step, ...) in ONE fresh process: used when a violation
    depends on state an earlier run of the same worker left behind inside the library (static caches and the like).
    Returns (signatures of the LAST index, combined text)."""
    env = B.run_env(bdir, "portable" if (start & 1) else "sse2", flavour_env)
    cmd = [os.path.join(bdir, "ecsim"), "batch", prop, tier, str(seed), str(start), str(step), str(count), "600", "0"]
    try:
        p = subprocess.run(cmd, env=env, stdout=subprocess.PIPE, stderr=subprocess.PIPE, timeout=timeout,
                           preexec_fn=_stack_limiter(768 if ((start & 3) == 2 and step % 4 == 0) or prop == "C05" else None))
    except subprocess.TimeoutExpired:
        return ["%s/?/hang" % prop], "timeout"
    out, err = p.stdout.decode("latin1"), p.stderr.decode("latin1")
    last = start + (count - 1) * step
    m = re.search(r"^END %d (.*)$" % last, out, re.M)
    if m:
        r = json.loads(m.group(1))
        sigs = [v["sig"] for v in r.get("viol", [])]
        if p.returncode != 0:
            # every run of the sequence completed, the process then died while exiting (library destructor, sanitizer
            # at-exit report): a violation of the whole history, named after where it died
            cls, func = classify_crash(out, err, B.repo_root())
            sigs.append("%s/EXIT/crash/at-exit/%s/%s" % (prop, cls, func))
            return sigs, err[-3000:]
        return sigs, out[-2000:]
    begins = re.findall(r"^BEGIN (\d+)$", out, re.M)
    if begins and int(begins[-1]) == last and p.returncode != 0:
        sig, _ = crash_signature(prop, out, err, B.repo_root())
        return [sig], err[-3000:]
    return [], out[-1000:] + err[-1000:]


def _crash_excerpt(err):
    lines = [l for l in err.splitlines() if l.strip()]
    keep = []
    for l in lines:
        if "ERROR:" in l or "runtime error" in l or re.match(r"\s*#\d+ ", l):
            keep.append(l.strip())
        if len(keep) >= 8:
            break
    return " | ".join(keep)[:900]


def tsan_signatures(prop, err, repo):
    """One signature per ThreadSanitizer report in stderr: the innermost library function of each of the two accesses."""
    sigs = []
    for blk in re.split(r"(?=WARNING: ThreadSanitizer:)", err):
        m = re.match(r"WARNING: ThreadSanitizer: ([a-z \-]+)", blk)
        if not m:
            continue
        kind = m.group(1).strip().replace(" ", "-")
        fns = []
        for part in re.split(r"\n\s*\n", blk)[:2]:
            fn = None
            for f, loc in re.findall(r"#\d+ (\S+) (\S+?):\d+", part):
                if loc.startswith(repo + "/") or ("/src/" in loc and "/verif/" not in loc and "libsanitizer" not in loc):
                    fn = f
                    break
            fns.append(fn or "?")
        sigs.append("%s/tsan/%s/%s" % (prop, kind, "+".join(sorted(set(fns)))))
    return sorted(set(sigs))


def gen_plan(bdir, prop, tier, seed, index):
    env = B.run_env(bdir)
    p = subprocess.run([os.path.join(bdir, "ecsim"), "gen", prop, tier, str(seed), str(index)], env=env,
                       stdout=subprocess.PIPE, stderr=subprocess.PIPE, timeout=60)
    return json.loads(p.stdout.decode())


# ----------------------------------------------------------------------------- batch of runs across workers
class Batch:
    def __init__(self, bdir, prop, tier, seed, runs, secs, nsamples=1, watchdog=None, nworkers=None, flavour_env=None):
        self.bdir, self.prop, self.tier, self.seed = bdir, prop, tier, seed
        self.runs, self.secs, self.nsamples = runs, secs, nsamples
        self.watchdog = watchdog or (20 if tier == "quick" else 120)
        self.nworkers = nworkers or NWORKERS
        if self.nworkers % 2:
            self.nworkers += 1  # index parity selects the XOR kernel flavour
        self.flavour_env = flavour_env
        self.results = {}      # index -> (hash, ph, nt)
        self.viol = {}         # signature -> list of (index, violation dict)
        self.samples = []
        self.schedules, self.switches = set(), 0
        self.tsan_runs = []
        self.cells = set()
        self.faults, self.probes = {}, {}
        self.steps = 0
        self.crashes = []      # (index, out, err, kind)
        self.lock = threading.Lock()
        self.t0 = time.time()

    def _worker(self, w):
        W = self.nworkers
        per = (self.runs + W - 1) // W
        start, remaining = w, per
        while remaining > 0:
            left = self.secs - (time.time() - self.t0)
            if left <= 0.5:
                return
            env = B.run_env(self.bdir, "portable" if (w & 1) else "sse2", self.flavour_env)
            cmd = [os.path.join(self.bdir, "ecsim"), "batch", self.prop, self.tier, str(self.seed), str(start), str(W),
                   str(remaining), "%.1f" % left, str(self.nsamples if w < 3 and start == w else 0)]
            p = subprocess.Popen(cmd, env=env, stdout=subprocess.PIPE, stderr=subprocess.PIPE,
                                 preexec_fn=_stack_limiter(768 if ((start & 3) == 2 and W % 4 == 0) or self.prop == "C05" else None))
            errbuf = []
            et = threading.Thread(target=lambda: errbuf.append(p.stderr.read()), daemon=True)
            et.start()
            last_begin, last_end, done_flag, tail = None, None, False, []
            last_io = [time.time()]
            hung = [False]

            def dog():
                while p.poll() is None:
                    time.sleep(1.0)
                    if time.time() - last_io[0] > self.watchdog:
                        hung[0] = True
                        p.kill()
                        return
            threading.Thread(target=dog, daemon=True).start()
            n_end = 0
            for raw in p.stdout:
                last_io[0] = time.time()
                line = raw.decode("latin1").rstrip("\n")
                if line.startswith("BEGIN "):
                    last_begin = int(line[6:])
                    tail = []
                elif line.startswith("END "):
                    sp = line.split(" ", 2)
                    idx = int(sp[1])
                    r = json.loads(sp[2])
                    n_end += 1
                    last_end = idx
                    with self.lock:
                        self.results[idx] = (r["hash"], r["ph"], r["nt"])
                        for c in r.get("cells", []):
                            self.cells.add(c)
                        if r.get("tsan"):
                            self.tsan_runs.append(idx)
                        if "sh" in r:
                            self.schedules.add(r["sh"])
                            self.switches += r.get("sw", 0)
                        for v in r.get("viol", []):
                            self.viol.setdefault(v["sig"], []).append((idx, v))
                        if "sample" in r:
                            self.samples.append(r["sample"])
                    last_begin = None
                elif line.startswith("STATS "):
                    st = json.loads(line[6:])
                    with self.lock:
                        self.steps += st.get("steps", 0)
                        for k, v in st["faults"].items():
                            self.faults[k] = self.faults.get(k, 0) + v
                        for k, v in st["probes"].items():
                            self.probes[k] = self.probes.get(k, 0) + v
                elif line.startswith("DONE "):
                    done_flag = True
                else:
                    tail.append(line)
            p.wait()
            et.join(timeout=5)
            err = (errbuf[0] if errbuf else b"").decode("latin1")
            if done_flag and p.returncode == 0:
                return
            if done_flag and last_end is not None:
                # every run completed but the process died while exiting (library destructor, sanitizer at-exit report):
                # attribute it to the last run; a fresh-process execution of that run exits the same way
                with self.lock:
                    self.crashes.append((last_end, "\n".join(tail), err, "crash"))
                return
            # the worker died (or was killed by the watchdog) inside run `last_begin`
            if last_begin is None:
                with self.lock:
                    self.crashes.append((None, "\n".join(tail), err, "worker-lost"))
                return
            with self.lock:
                self.crashes.append((last_begin, "\n".join(tail), err, "hang" if hung[0] else "crash"))
            done_runs = (last_begin - start) // W + 1
            start = last_begin + W
            remaining -= done_runs

    def run(self):
        ths = [threading.Thread(target=self._worker, args=(w,)) for w in range(self.nworkers)]
        for t in ths:
            t.start()
        for t in ths:
            t.join()
        self.wall = time.time() - self.t0
        return self


# ----------------------------------------------------------------------------- minimisation
def _lists_in_op(op):
    """(container, key) pairs of shrinkable lists inside an op."""
    out = []
    for key in ("dl", "fx", "store", "fr", "R", "X", "calls"):
        if isinstance(op.get(key), list):
            out.append((op, key))
    for key in ("dl", "fr"):
        for e in op.get(key, []) or []:
            if isinstance(e, dict) and isinstance(e.get("fx"), list):
                out.append((e, "fx"))
    return out


class Minimiser:
    def __init__(self, bdir, plan, sig, budget_s=90, max_exec=400, flavour_env=None):
        self.bdir, self.sig, self.flavour_env = bdir, sig, flavour_env
        self.plan = copy.deepcopy(plan)
        self.deadline = time.time() + budget_s
        self.max_exec, self.n_exec = max_exec, 0

    def still_fails(self, plan):
        if self.n_exec >= self.max_exec or time.time() > self.deadline:
            return False
        self.n_exec += 1
        r = exec_plan(self.bdir, plan, timeout=30, flavour_env=self.flavour_env)
        return self.sig in r["sigs"]

    def ddmin_list(self, get, put):
        """Classic ddmin over a list living inside self.plan (accessed through get/put closures)."""
        items = get()
        n = 2
        while len(items) >= 1 and time.time() < self.deadline and self.n_exec < self.max_exec:
            chunk = max(1, len(items) // n)
            reduced = False
            i = 0
            while i < len(items):
                cand = items[:i] + items[i + chunk:]
                put(cand)
                if self.still_fails(self.plan):
                    items = cand
                    n = max(n - 1, 2)
                    reduced = True
                else:
                    put(items)
                    i += chunk
            if not reduced:
                if chunk == 1:
                    break
                n = min(len(items), n * 2)
        put(items)

    def run(self):
        P = self.plan
        if "threads" in P:
            for ti in range(len(P["threads"])):
                self.ddmin_list(lambda ti=ti: P["threads"][ti], lambda v, ti=ti: P["threads"].__setitem__(ti, v))
            oplists = P["threads"]
            if isinstance(P.get("sched", {}).get("decisions"), list):
                # fewer context switches: replace decisions by "continue current thread" (-1)
                dec = P["sched"]["decisions"]
                for i in range(len(dec)):
                    if dec[i] == -1 or time.time() > self.deadline:
                        continue
                    old = dec[i]
                    dec[i] = -1
                    if not self.still_fails(P):
                        dec[i] = old
        else:
            self.ddmin_list(lambda: P["ops"], lambda v: P.__setitem__("ops", v))
            oplists = [P["ops"]]
        for ops in oplists:
            for op in ops:
                for cont, key in _lists_in_op(op):
                    if key in ("R",):
                        continue
                    self.ddmin_list(lambda c=cont, k=key: c[k], lambda v, c=cont, k=key: c.__setitem__(k, v))
            # scalar shrinking
            for op in ops:
                for key, tries in (("len", None), ("pat", [0]), ("al", [16]), ("oal", [16]), ("force", [0]), ("twin", [0]), ("confirm", [0]),
                                   ("k", None), ("m", None)):
                    if key not in op:
                        continue
                    if key in ("k", "m") and op.get("op") != "CREATE":
                        continue
                    old = op[key]
                    if key in ("k", "m"):
                        cands = [c for c in (1, 2, 3, 4, 6, old // 2) if 0 < c < old]   # smaller shapes (device numbers are taken modulo k+m)
                    else:
                        cands = tries if tries is not None else [c for c in (0, 1, 16, 64, old // 2) if c < old]
                    for c in cands:
                        if c == old:
                            continue
                        op[key] = c
                        if self.still_fails(P):
                            old = c
                            break
                        op[key] = old
                for e in (op.get("dl") or []):
                    if isinstance(e, dict) and e.get("al", 16) != 16:
                        old = e["al"]
                        e["al"] = 16
                        if not self.still_fails(P):
                            e["al"] = old
        return self.plan


# ----------------------------------------------------------------------------- known findings
def load_known():
    p = os.path.join(VERIF, "known_findings.json")
    if not os.path.exists(p):
        return []
    return json.load(open(p)).get("findings", [])


def match_known(known, prop, sig):
    for k in known:
        if k.get("status") == "open" and k.get("property") == prop and fnmatch.fnmatchcase(sig, k.get("signature", "")):
            return k
    return None
