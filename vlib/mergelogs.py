#!/usr/bin/env python3
# Development helper: folds the "[sensitivity] <name> CAUGHT by <prop> in <n>s [signatures]" lines of vp-run logs (self-tests
# executed from snapshots) into selftest/sensitivity-{mutants,seeded}.json.  Later logs win.  usage: mergelogs.py <log>...
import ast, json, os, re, sys
VERIF = os.path.dirname(os.path.dirname(os.path.abspath(__file__)))
res = {"mutants": json.load(open(os.path.join(VERIF, "selftest/sensitivity-mutants.json"))),
       "seeded": json.load(open(os.path.join(VERIF, "selftest/sensitivity-seeded.json")))}
n = 0
for path in sys.argv[1:]:
    run = os.path.basename(os.path.dirname(path))
    for line in open(path, errors="replace"):
        m = re.match(r"\[sensitivity\] (\S+)\s+CAUGHT by (\S+) in (\d+)s (\[.*)$", line)
        if not m:
            m2 = re.match(r"\[sensitivity\] (\S+)\s+MISSED", line)
            if m2:
                name = m2.group(1); kind = "seeded" if re.match(r"C\d\d-[a-z]$", name) else "mutants"
                res[kind][name] = "MISSED (vp run %s)" % run
            continue
        name, prop, secs, sigs = m.groups()
        try:
            sl = ast.literal_eval(sigs if sigs.rstrip().endswith("]") else sigs[:sigs.rfind("'")] + "']")
        except Exception:
            sl = re.findall(r"'([^']+)'", sigs)
        kind = "seeded" if re.match(r"C\d\d-[a-z]$", name) else "mutants"
        res[kind][name] = {"caught_by": prop, "seconds": int(secs), "signatures": sl[:3], "from": "vp run " + run}
        n += 1
for k, v in res.items():
    json.dump(v, open(os.path.join(VERIF, "selftest/sensitivity-%s.json" % k), "w"), indent=1, sort_keys=True)
print("merged", n, "results;", {k: len(v) for k, v in res.items()})
