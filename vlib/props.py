# Per-property configuration of the checks: budgets (runs, wall seconds), claimed level, evidence texts.
COMMON_ASSUME = [
    "a clean batch is evidence over the sampled seeds, not proof",
    "oracles are stated from the property text (DESIGN.md section 3); error codes are compared only where the property names one",
    "UBSan shift-base is off (GCC defines signed << of a 1 into the sign bit); ASan ODR detection is off (rs_galois.c is linked into two shared objects by the project's own Makefile)",
]
ISAL_ASSUME = "isa_l_* backends run against a clean-room libisal.so.2 written from ISA-L's public documentation; the real ISA-L is not available in this sandbox"

NONTRIV = ("; a run is non-trivial when its plan carries at least one attached fault (lost/duplicated/reordered/misaligned delivery, "
           "damaged or re-sealed bytes, environment flip, backend failure, malformed call, dead descriptor) or at least two interacting data-path operations; "
           "distinct = distinct hash of the operation list")


def P(level, rule, quick, thorough, assumptions=(), **kw):
    d = dict(level=level, rule=rule + NONTRIV, budget=dict(quick=quick, thorough=thorough),
             assumptions=COMMON_ASSUME + list(assumptions))
    d.update(kw)
    return d


PROPS = {
    "C01": P("exploration",
             "seeded plans: CREATE one instance (rs_vand over all 496 shapes biased to k+m=32/k=1/m=1, the 38 flat-XOR tables, isa_l_* through the stub), "
             "PUT random objects (lengths 0,1,k*w/8+-1, multiples, <=64KiB/1MiB), then GETs whose delivery loses a set within tolerance and is duplicated, permuted, surplus, unaligned; force flag random",
             (24000, 40), (600000, 600), [ISAL_ASSUME],
             expect_probes=["get.within-tolerance", "create.ok.liberasurecode_rs_vand", "create.ok.flat_xor_hd", "create.ok.isa_l_rs_vand", "create.ok.isa_l_rs_cauchy"]),
    "C02": P("exploration",
             "seeded plans: PUT then GET/REPAIR from arbitrary sub-multisets of the pristine stripe, concentrated on tolerance+1..m+1 (the band the front end lets through), too few fragments, duplicates; "
             "thorough additionally sweeps all 2^n subsets of eleven small codes by run index",
             (24000, 40), (600000, 600), [ISAL_ASSUME],
             expect_probes=["get.beyond-tolerance", "repair.beyond-tolerance", "get.within-tolerance"]),
    "C03": P("exploration",
             "seeded plans as C01, judged on REPAIR: destination lost (must equal the fragment encode produced, all bytes), destination delivered (returned unchanged), destination out of range (refused)",
             (24000, 40), (600000, 600), [ISAL_ASSUME],
             expect_probes=["repair.dest-missing", "repair.dest-available", "repair.dest-out-of-range.refused"]),
    "C05": P("fault_enumeration",
             "enumeration by run index of the 24191 (table, erasure set |E|<hd) pairs of the 38 flat-XOR tables through a seed-keyed permutation (quick: stratified prefix touching every table and every erasure size; "
             "thorough: all pairs, both kernel flavours), each with random payload length, GET and REPAIR of every lost index; every 12th run sweeps a slice of the (k,m,hd) box 0..33 x 0..8 x 0..7 for refusal of unsupported shapes; "
             "parity payloads compared with golden equations after every PUT",
             (9000, 40), (110000, 600), [],
             expect_probes=["get.within-tolerance", "repair.dest-missing"]),
    "C06": P("exploration",
             "seeded plans: one instance (rs_vand / isa_l / each flat-XOR table by run index), 8-30 fragments_needed queries with disjoint (rebuild, unreachable) lists within and beyond tolerance in random order, "
             "input lists right-aligned against a guard page, output pre-poisoned; half the answers are confirmed by reconstructing from the answer alone",
             (12000, 40), (300000, 600), [ISAL_ASSUME],
             expect_probes=["plan.within", "plan.beyond", "plan.confirmed"]),
    "C09": P("fault_enumeration",
             "seeded plans: stored fragment headers damaged by single-bit flips (bit = run index mod 640: all 640 swept), byte overwrites, bursts, torn prefixes, version/magic rewrites with and without re-sealing, "
             "legacy-CRC seal, foreign-endian rewrite; judged through get_fragment_metadata, decode and reconstruct against the reference acceptance predicate",
             (16000, 40), (400000, 600), [],
             expect_probes=["scrub.ref-accept", "scrub.ref-reject", "c09.consume.refused"]),
    "C10": P("exploration",
             "seeded plans with ct=CRC32: environment switch set to one of 10 values before PUT/REPAIR and flipped between operations; payload bit flips (every bit of short payloads by run index), bursts, byte edits, torn and stale payloads; "
             "stored CRCs compared with bitwise standard / historical CRC models, mismatch flag compared with the reference",
             (16000, 40), (400000, 600), [],
             expect_probes=["scrub.mismatch", "scrub.match"]),
    "C11": P("exploration",
             "seeded plans: each scrubbed fragment (pristine, payload-damaged or with re-sealed fields) is compared with its opposite-endian twin built by the simulator (fields and both CRC values byte-swapped, metadata CRC computed over the swapped image)",
             (12000, 30), (300000, 400), ["big-endian hosts are modelled by byte-swapped fragments, not by running on one"],
             expect_probes=["twin.compared"]),
    "C12": P("exploration",
             "seeded plans: 2-4 live instances of different backend/shape, every SCRUB reads a fragment of any writer through any reader with one field edited and re-sealed (idx around k+m and at 2^31/2^32 edges, backend id, backend/library version +-1, mismatch flag), "
             "payload/header damage, endian rewrite or misdirection; verify_stripe_metadata over random sub-lists",
             (12000, 40), (300000, 600), [ISAL_ASSUME],
             expect_probes=["scrub.ref-invalid", "scrub.ref-valid", "vsm.ref-bad", "vsm.ref-good"]),
    "C19": P("exploration",
             "seeded plans on isa_l_rs_vand / isa_l_rs_cauchy over all k+m<=32 through the clean-room libisal: round trips, reconstructs, fragments_needed; stub knobs (input-clobbering inversion, table layout) and injected inversion failures vary per run",
             (16000, 40), (400000, 600), [ISAL_ASSUME],
             expect_probes=["get.within-tolerance", "repair.dest-missing", "plan.within"]),
    "C20": P("exploration",
             "seeded plans with ct=CRC32 and force_metadata_checks=1: survivor set S, damaged subset B (payload flips/bursts/torn/stale, re-sealed foreign fields, misdirected fragments), with and without all data fragments delivered; "
             "safety and availability judged separately, only when every delivered fragment is pristine or invalid under the reference",
             (16000, 40), (400000, 600), [ISAL_ASSUME],
             expect_probes=["c20.judged"]),
}
