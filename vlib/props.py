# Per-property configuration of the checks: budgets (runs, wall seconds), claimed level, evidence texts.
COMMON_ASSUME = [
    "a clean batch is evidence over the sampled seeds, not proof",
    "oracles are stated from the property text (DESIGN.md section 3); error codes are compared only where the property names one",
    "UBSan shift-base is off (GCC defines signed << of a 1 into the sign bit); ASan ODR detection is off (rs_galois.c is linked into two shared objects by the project's own Makefile)",
]
ISAL_ASSUME = "isa_l_* backends run against a clean-room libisal.so.2 written from ISA-L's public documentation; the real ISA-L is not available in this sandbox"

NONTRIV = ("; a run is non-trivial when its plan carries at least one attached fault (lost/duplicated/reordered/misaligned delivery, "
           "damaged or re-sealed bytes, environment flip, backend failure, malformed call, dead descriptor) or at least two interacting data-path operations; "
           "distinct = distinct hash of the operation list")


def P(level, rule, quick, thorough, assumptions=(), **kw):
    d = dict(level=level, rule=rule + NONTRIV, budget=dict(quick=quick, thorough=thorough),
             assumptions=COMMON_ASSUME + list(assumptions))
    d.update(kw)
    return d


PROPS = {
    "C01": P("exploration",
             "seeded plans: CREATE one instance (rs_vand over all 496 shapes biased to k+m=32/k=1/m=1, the 38 flat-XOR tables, isa_l_* through the stub), "
             "PUT random objects (lengths 0,1,k*w/8+-1, multiples, <=64KiB/1MiB), then GETs whose delivery loses a set within tolerance and is duplicated, permuted, surplus, unaligned; force flag random",
             (60000, 40), (600000, 600), [ISAL_ASSUME],
             expect_probes=["get.within-tolerance", "create.ok.liberasurecode_rs_vand", "create.ok.flat_xor_hd", "create.ok.isa_l_rs_vand", "create.ok.isa_l_rs_cauchy"]),
    "C02": P("exploration",
             "seeded plans: PUT then GET/REPAIR from arbitrary sub-multisets of the pristine stripe, concentrated on tolerance+1..m+1 (the band the front end lets through), too few fragments, duplicates; "
             "thorough additionally sweeps all 2^n subsets of eleven small codes by run index",
             (60000, 40), (600000, 600), [ISAL_ASSUME],
             expect_probes=["get.beyond-tolerance", "repair.beyond-tolerance", "get.within-tolerance"]),
    "C03": P("exploration",
             "seeded plans as C01, judged on REPAIR: destination lost (must equal the fragment encode produced, all bytes), destination delivered (returned unchanged), destination out of range (refused)",
             (60000, 40), (600000, 600), [ISAL_ASSUME],
             expect_probes=["repair.dest-missing", "repair.dest-available", "repair.dest-out-of-range.refused"],
             extra_flavours={"quick": {"plain": (6000, 12)}, "thorough": {"plain": (60000, 120)}}),
    "C05": P("fault_enumeration",
             "enumeration by run index of the 24191 (table, erasure set |E|<hd) pairs of the 38 flat-XOR tables through a seed-keyed permutation, each pair on both kernel flavours (run indexes 2j, 2j+1), after a stratified head touching every table and every erasure size; "
             "both tiers cover all 48458 (pair, flavour) cells (24191 non-empty erasure sets + the 38 empty ones, x 2 flavours) (thorough several times with other data), each with random payload length, GET and REPAIR of every lost index; every 12th index pair sweeps a slice of the (k,m,hd) box 0..33 x 0..8 x 0..7 for refusal of unsupported shapes; "
             "parity payloads compared with golden equations after every PUT",
             (56000, 45), (240000, 600), [],
             expect_probes=["get.within-tolerance", "repair.dest-missing"],
             cells_total={"xor": 2 * 24229, "box": 34 * 9 * 8},
             extra_flavours={"quick": {"plain": (12000, 12)}, "thorough": {"plain": (100000, 120)}}),
    "C06": P("exploration",
             "seeded plans: one instance (rs_vand / isa_l / each flat-XOR table by run index), 8-30 fragments_needed queries with disjoint (rebuild, unreachable) lists within and beyond tolerance in random order, "
             "input lists right-aligned against a guard page, output pre-poisoned; half the answers are confirmed by reconstructing from the answer alone",
             (30000, 40), (300000, 600), [ISAL_ASSUME],
             expect_probes=["plan.within", "plan.beyond", "plan.confirmed"],
             extra_flavours={"quick": {"plain": (8000, 12)}, "thorough": {"plain": (80000, 120)}}),
    "C09": P("fault_enumeration",
             "seeded plans: stored fragment headers damaged by single-bit flips (bit = run index mod 640: all 640 swept), byte overwrites, bursts, torn prefixes, version/magic rewrites with and without re-sealing, "
             "legacy-CRC seal, foreign-endian rewrite; judged through get_fragment_metadata, decode and reconstruct against the reference acceptance predicate",
             (40000, 40), (400000, 600), [],
             expect_probes=["scrub.ref-accept", "scrub.ref-reject", "c09.consume.refused"],
             cells_total={"bit": 640}),
    "C10": P("exploration",
             "seeded plans with ct=CRC32: environment switch set to one of 10 values before PUT/REPAIR and flipped between operations; payload bit flips (every bit of short payloads by run index), bursts, byte edits, torn and stale payloads; "
             "stored CRCs compared with bitwise standard / historical CRC models, mismatch flag compared with the reference",
             (40000, 40), (400000, 600), [],
             expect_probes=["scrub.mismatch", "scrub.match"]),
    "C11": P("exploration",
             "seeded plans: each scrubbed fragment (pristine, payload-damaged or with re-sealed fields) is compared with its opposite-endian twin built by the simulator (fields and both CRC values byte-swapped, metadata CRC computed over the swapped image)",
             (30000, 30), (300000, 400), ["big-endian hosts are modelled by byte-swapped fragments, not by running on one"],
             expect_probes=["twin.compared"]),
    "C12": P("exploration",
             "seeded plans: 2-4 live instances of different backend/shape, every SCRUB reads a fragment of any writer through any reader with one field edited and re-sealed (idx around k+m and at 2^31/2^32 edges, backend id, backend/library version +-1, mismatch flag), "
             "payload/header damage, endian rewrite or misdirection; verify_stripe_metadata over random sub-lists",
             (30000, 40), (300000, 600), [ISAL_ASSUME],
             expect_probes=["scrub.ref-invalid", "scrub.ref-valid", "vsm.ref-bad", "vsm.ref-good"]),
    "C19": P("exploration",
             "seeded plans on isa_l_rs_vand / isa_l_rs_cauchy over all k+m<=32 through the clean-room libisal: round trips, reconstructs, fragments_needed; stub knobs (input-clobbering inversion, table layout) and injected inversion failures vary per run",
             (40000, 40), (400000, 600), [ISAL_ASSUME],
             expect_probes=["get.within-tolerance", "repair.dest-missing", "plan.within"]),
    "C20": P("exploration",
             "seeded plans with ct=CRC32 and force_metadata_checks=1: survivor set S, damaged subset B (payload flips/bursts/torn/stale, re-sealed foreign fields, misdirected fragments), with and without all data fragments delivered; "
             "safety and availability judged separately, only when every delivered fragment is pristine or invalid under the reference",
             (40000, 40), (400000, 600), [ISAL_ASSUME],
             expect_probes=["c20.judged"]),
    "C13": P("fault_enumeration",
             "seeded histories: every third run walks a box of configurations around the accepted region (9 backend ids + invalid ids, k,m in -1..33 biased to the edges, hd 0..7, w in {0,8,16,32,7}), each accepted instance is driven through a full "
             "size-query/encode/decode/reconstruct/destroy cycle; the other runs issue malformed calls inside a live history, the first 14 of each run enumerating by run index the finite grid "
             "(15 entry points x {live,dead,never-issued descriptor} x NULL/boundary masks x 16 variants = 5232 calls), valid traffic interleaved",
             (20000, 40), (200000, 600), [ISAL_ASSUME],
             expect_probes=["badcall.refused.invalid-argument", "badcall.refused.dead-descriptor", "badcall.refused.unknown-descriptor", "create.refused", "cycle.done.liberasurecode_rs_vand", "cycle.done.flat_xor_hd", "cycle.done.null"],
             cells_total={"call": 9648}),
    "C14": P("exploration",
             "seeded histories over 6 slots (length 10-60, thorough to 200): creates of every available backend incl. null, failed creates (unsupported shape, unavailable backend, injected init failure), destroys in any order, "
             "destroys/uses of dead and never-issued descriptors against every entry point, data-path operations and canaries on live instances, descriptor counter preset just below INT_MAX with live descriptors above the wrap point; "
             "registry set model + canary digests computed in fresh-process state",
             (16000, 40), (200000, 600), [ISAL_ASSUME, "next_backend_desc is bound weakly; if a refactor hides it the wrap scenario is reported as unreached"],
             expect_probes=["canary.match", "badcall.refused.dead-descriptor"],
             extra_flavours={"quick": {"plain": (1500, 15)}, "thorough": {"plain": (20000, 120)}}),
    "C15": P("exploration",
             "seeded histories: three instances, 8-40 mixed operations (thorough to 120) with every input buffer read-only between two guard pages (right-aligned or ASan-poisoned slack), canaries (fixed configuration+data re-encoded and compared with the digest taken in fresh-process state) after failed calls, backend failures, instance churn and environment flips",
             (16000, 40), (200000, 600), [ISAL_ASSUME, "a second pass runs the same plans on the un-sanitized -O2 build, where the allocator recycles dirty chunks (ASan fills fresh allocations with a constant)"],
             expect_probes=["canary.match"],
             extra_flavours={"quick": {"plain": (4000, 15)}, "thorough": {"plain": (100000, 200)}}),
    "C16": P("exploration",
             "seeded histories of 20-80 operations (thorough to 300) over four slots mixing valid calls with their cleanups, arbitrary (insufficient, beyond-tolerance, damaged) fragment sets, malformed calls, unsupported shapes, backend and dependency failures; "
             "ownership accounting of every block allocated from library call sites: zero net after each call pair / failed call, zero at quiescence after destroying all instances; ASan for double free and use-after-free",
             (10000, 45), (120000, 600), [ISAL_ASSUME, "allocation failure is not injected (no property quantifies over it)"],
             expect_probes=[]),
    "C17": P("fault_enumeration",
             "even run indexes enumerate a scripted workload (create, 3 encode, 4 decode with a data fragment lost, 3 reconstruct, 3 fragments_needed, destroy; 14 fail positions x 2 modes [fail instead of / after the real work] x 5 backends = 140 cases), "
             "the failed call is then repeated with the fault off and must succeed; odd run indexes attach failures at random; ISA-L inversion failures come from the stub; a sibling instance must stay unaffected",
             (12000, 30), (150000, 400), [ISAL_ASSUME],
             expect_probes=[], cells_total={"fail": 140}),
    "C18": P("exploration",
             "seeded thread plans: 2-4 tasks (thorough to 16) each with 3-8 operations, either through one shared descriptor (decode/reconstruct/query/encode), or creating, using and destroying their own instances (first-ever and subsequent creates, mixed backends, RS instances sharing GF tables), or both; "
             "a third of the shared plans give every thread the same loss set (rare decoder paths are then taken by all), some creates have a failing backend init, some queries read byte-swapped twins; "
             "a seeded scheduler (uniform random walk, sticky, PCT depth 1-3, run-to-completion with 1-3 preemptions; rwlock reader- or writer-preferring per run) decides which parked thread runs at every yield point (operation boundaries, library lock operations, guarded hook sites at registry / counter / GF-table accesses, every primitive of the libisal stand-in, and - ThreadSanitizer pass - every atomic operation of the library); "
             "results compared with sequential truth, vector-clock happens-before check over the annotated accesses, ASan, deadlock, lock-leak and yield-budget detection; second pass on a ThreadSanitizer build of the library",
             (12000, 45), (400000, 900), ["the vector-clock detector sees only the annotated shared state (registry list, instance idesc, descriptor counter, GF tables); unannotated shared state is covered by the second pass: the same seeded schedules on a ThreadSanitizer build of the library (harness and hand-off uninstrumented, simulated locks forwarded to the real ones), plus the result oracle and ASan",
                                         "the lock primitive is the simulator's (the locking protocol is the library's)", ISAL_ASSUME],
             expect_probes=["hook.registry.list", "hook.galois.tables", "hook.galois.counter", "canary.match", "get.within-tolerance"],
             extra_flavours={"quick": {"tsan": (1600, 25)}, "thorough": {"tsan": (60000, 400)}}),
}

NOT_APPLICABLE = [
    {"property_id": "C04", "reason": "pure function of (k, m, data): a constant generator matrix and a linear map, with no fault, schedule, history or environment to simulate; deciding it is evaluation of a formula, not simulation"},
    {"property_id": "C07", "reason": "pure function (configuration, data) -> bytes; deciding it is a differential comparison with an independent serializer, a different technique; the golden header layout is used here only as an oracle for C09-C12/C20"},
    {"property_id": "C08", "reason": "pure arithmetic of (k, w, length) with nothing to inject or schedule; its one history-dependent clause (unknown descriptor => negative) is exercised under C13/C14"},
]

TECHNIQUE = {p: "deterministic simulation with fault injection (seeded plans over a simulated stripe store, reference-model oracles)" for p in PROPS}
TECHNIQUE.update({
    "C05": "deterministic simulation: enumeration of all tolerated erasure sets as device-loss faults, golden-equation oracle",
    "C09": "deterministic simulation: enumerated and seeded corruption of stored headers, reference acceptance predicate",
    "C13": "deterministic simulation: enumerated malformed calls inside seeded live histories, allocator accounting",
    "C14": "deterministic simulation: seeded create/use/destroy histories against a registry set model, fresh-process canaries",
    "C16": "deterministic simulation: seeded fault-laden API histories with link-time allocator ownership accounting under ASan",
    "C17": "deterministic simulation: backend-operation failure injected at every call position of a scripted workload",
    "C18": "deterministic simulation: real threads under a seeded scheduler at lock/hook yield points, vector-clock race detection, sequential-equivalence oracle",
})

LEVEL_TEXT = {
    "C01": "Seeded exploration of (configuration, object, tolerated loss set, delivery permutation/duplication/alignment): every sampled decode must return the original bytes. Sampling, not proof; covers every shape family and every XOR table in the quick tier.",
    "C02": "Seeded exploration of arbitrary sub-multisets of pristine stripes incl. the band beyond tolerance; oracle is truth-or-error plus sanitizers and guard pages. Thorough sweeps all subsets of small codes.",
    "C03": "Seeded exploration of reconstruct for lost, delivered and out-of-range destinations; byte-for-byte comparison with the fragment encode produced.",
    "C05": "Fault enumeration: the finite set of 24191 erasure sets below hd over the 38 tables is walked by run index (complete in the thorough tier, stratified in quick) on both kernel flavours; golden equations after every encode; shape whitelist box swept.",
    "C06": "Seeded exploration of (rebuild, unreachable) queries within and beyond tolerance; answer judged by range/disjointness/GF(2) span/exactly-k and confirmed behaviourally.",
    "C09": "Fault enumeration over header corruption: all 640 single-bit flips swept plus seeded overwrites, bursts, torn prefixes, version/magic/endianness rewrites; verdict compared with an independent acceptance predicate through all three consuming APIs.",
    "C10": "Seeded exploration of payload corruption and of the legacy-CRC switch flipping between operations; stored CRCs and mismatch verdicts compared with bitwise CRC models.",
    "C11": "Seeded exploration comparing every scrubbed fragment with its simulator-built opposite-endian twin, with and without corruption. The fault dimension is thin (one deterministic transformation) and is kept because it interacts with corruption.",
    "C12": "Seeded exploration across 2-4 instances with re-sealed single-field edits, misdirected and damaged fragments; per-fragment and stripe verdicts compared with a reference validity predicate.",
    "C13": "Fault enumeration of the finite malformed-call grid inside live histories plus a seeded walk of the configuration box; refusal value, nothing retained, no sanitizer report, accepted instances complete a full cycle.",
    "C14": "Seeded exploration of create/use/destroy histories (random, not the bounded-exhaustive depth-7 enumeration the property text also mentions - that would be model checking) against a registry set model, dead-descriptor uses on every entry point, counter wrap, sibling instances, hundreds to a thousand simultaneous instances, canaries; second pass on the -O2 build.",
    "C15": "Seeded exploration with every input (data, fragments, fragment pointer lists, index lists) on read-only guarded pages and fresh-process canary digests at random points of mixed histories; second pass on the un-sanitized -O2 build (dirty heap); violations that need state left by earlier runs are replayed as run sequences.",
    "C16": "Seeded exploration of long fault-laden histories; exact ownership accounting of library allocations (zero at quiescence) with ASan for double free / use after free.",
    "C17": "Fault enumeration: each backend operation fails at each call position of a scripted workload (swept by run index) in two modes, plus random placements and dependency failures; rc<0, nothing retained, the repeated call succeeds.",
    "C18": "Seeded exploration of interleavings: real threads released one at a time at lock, hook, dependency-primitive and API yield points by a seeded scheduler (random walk, sticky, PCT, bounded preemption; reader- or writer-preferring rwlock policy per run); results compared with sequential truth, vector-clock race detector over annotated shared state, deadlock and lock-leak verdicts; second pass: the same schedules on a ThreadSanitizer build of the library (atomics are yield points there). Sampling of schedules, not exhaustive enumeration.",
    "C19": "Seeded exploration of the ISA-L adapters over all k+m<=32 through a clean-room libisal with varied stub behaviour and injected inversion failures; relative to that stub.",
    "C20": "Seeded exploration of forced-check decodes with damaged subsets of the survivors; safety and availability oracles evaluated only when every delivered fragment is pristine or invalid under the reference.",
}
