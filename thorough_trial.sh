#!/bin/sh
# Trial of the thorough tier with a reduced budget (code paths, not depth): used during development only.
cd "$(dirname "$0")"
for p in C01 C02 C03 C05 C06 C09 C10 C11 C12 C13 C14 C15 C16 C17 C18 C19 C20; do
  VERIF_EVIDENCE_DIR=/var/tmp/thorough-trial-evidence ./check $p --tier thorough --runs ${RUNS:-30000} --secs ${SECS:-90} 2>&1 | grep -v conda | grep -E "^\[check\] C|VIOLATION|KNOWN|NOT REPRO|lost" | cut -c1-300
done
