#!/bin/sh
# Full thorough tier of every claimed property, one after the other (development helper for `vp run`).
cd "$(dirname "$0")"
for p in C01 C02 C03 C05 C06 C09 C10 C11 C12 C13 C14 C15 C16 C17 C18 C19 C20; do
  VERIF_EVIDENCE_DIR=/var/tmp/thorough-evidence ./check $p --tier thorough 2>&1 | grep -v conda | grep -E "^\[check\] C|VIOLATION|KNOWN|NOT REPRO|lost|machinery" | cut -c1-300
  echo "exit=$? $p"
done
