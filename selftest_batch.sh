#!/bin/sh
# Runs selftest-seeded / selftest-sensitivity globs given as arguments "seeded:<glob>" / "mut:<glob>" (development helper;
# meant for `vp run`, which executes it from a snapshot so that edits in /verif cannot disturb it).
cd "$(dirname "$0")"
export VERIF_SCRATCH=/var/tmp/verif-scratch.run$$
for a in "$@"; do
  case "$a" in
    seeded:*) ./check selftest-seeded "${a#seeded:}" 2>&1 | grep "sensitivity\]" | cut -c1-260 ;;
    mut:*) ./check selftest-sensitivity "${a#mut:}" 2>&1 | grep "sensitivity\]" | cut -c1-260 ;;
  esac
done
